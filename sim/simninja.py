"""SimNinja: the one stub of the simulation.

Parses the subset of manifest syntax ninja_syntax.Writer emits, decides
dirtiness with ninja 1.13's rules, and runs the dirty sub-graph under a seeded
scheduler.  Every choice (what starts, what finishes, how many are in flight,
what fails) comes from the job description; nothing here reads a clock or a
global PRNG.
"""
import hashlib
import json
import os
import re
import shlex

from . import inotify, zygote


class ManifestError(Exception):
    """ninja would refuse this manifest (exit 1)."""


class Unsupported(Exception):
    """valid ninja syntax the stub does not model -> harness error, never a verdict."""


class Edge:
    __slots__ = ("outs", "rule", "ins", "implicit", "order", "vars", "idx")

    def __repr__(self):
        return "<edge %s %s>" % (self.rule, self.outs[0])


_IDENT = re.compile(r"[A-Za-z0-9_.-]+")
_SIMPLE_IDENT = re.compile(r"[A-Za-z0-9_-]+")


def _logical_lines(text):
    lines, cur, i, n = [], [], 0, len(text)
    while i < n:
        c = text[i]
        if c == "$":
            if i + 1 < n and text[i + 1] == "\n":
                i += 2
                while i < n and text[i] == " ":
                    i += 1
                continue
            if i + 2 < n and text[i + 1] == "\r" and text[i + 2] == "\n":
                i += 3
                while i < n and text[i] == " ":
                    i += 1
                continue
            cur.append(text[i : i + 2])
            i += 2
            continue
        if c == "\n":
            lines.append("".join(cur))
            cur = []
            i += 1
            continue
        cur.append(c)
        i += 1
    if cur:
        lines.append("".join(cur))
    return lines


def evalstr(s, lookup):
    out, i, n = [], 0, len(s)
    while i < n:
        c = s[i]
        if c != "$":
            out.append(c)
            i += 1
            continue
        nx = s[i + 1] if i + 1 < n else ""
        if nx in (" ", ":", "$"):
            out.append(nx)
            i += 2
            continue
        if nx == "{":
            j = s.find("}", i)
            if j < 0:
                raise ManifestError("bad $-escape (unterminated ${)")
            name = s[i + 2 : j]
            if not _IDENT.fullmatch(name):
                raise ManifestError("bad variable name")
            out.append(lookup(name))
            i = j + 1
            continue
        m = _SIMPLE_IDENT.match(s, i + 1)
        if not m:
            raise ManifestError("bad $-escape (literal $ must be written as $$)")
        out.append(lookup(m.group(0)))
        i = m.end()
    return "".join(out)


def _read_paths(s):
    """tokenise the part of a build line after 'build ' into raw eval strings and
    the separators ':' '|' '||' (ninja lexer: $-escapes keep their next char)."""
    toks, cur, i, n = [], [], 0, len(s)

    def flush():
        if cur:
            toks.append(("p", "".join(cur)))
            del cur[:]

    while i < n:
        c = s[i]
        if c == "$":
            cur.append(s[i : i + 2])
            i += 2
            continue
        if c == " ":
            flush()
            i += 1
            continue
        if c == ":":
            flush()
            toks.append(("s", ":"))
            i += 1
            continue
        if c == "|":
            flush()
            if i + 1 < n and s[i + 1] == "|":
                toks.append(("s", "||"))
                i += 2
            elif i + 1 < n and s[i + 1] == "@":
                raise Unsupported("validations")
            else:
                toks.append(("s", "|"))
                i += 1
            continue
        cur.append(c)
        i += 1
    flush()
    return toks


def _parse_binding(line):
    m = re.match(r"\s*([A-Za-z0-9_.-]+)\s*=\s*(.*)$", line, re.S)
    if not m:
        raise ManifestError("expected 'name = value': %r" % line[:60])
    return m.group(1), m.group(2)


class Manifest:
    def __init__(self, text):
        self.rules = {"phony": {}}
        self.edges = []
        self.globals = {}
        self._parse(text)
        self.prod = {}
        for e in self.edges:
            for o in e.outs:
                if o in self.prod:
                    raise ManifestError("multiple rules generate %s" % o)
                self.prod[o] = e

    def _g(self, k):
        return self.globals.get(k, "")

    def _parse(self, text):
        if text and not text.endswith("\n"):
            # ninja's lexer requires the final newline ("unexpected EOF")
            raise ManifestError("unexpected EOF")
        lines = _logical_lines(text)
        i = 0
        while i < len(lines):
            l = lines[i]
            if not l.strip():
                i += 1
                continue
            if l.lstrip().startswith("#"):
                i += 1
                continue
            if l[0] in " \t":
                raise ManifestError("unexpected indent")
            kw = l.split(" ", 1)[0]
            if kw in ("default", "pool", "include", "subninja"):
                raise Unsupported(kw)
            if kw == "rule" and " " in l:
                name = l[5:].strip()
                if not _IDENT.fullmatch(name):
                    raise ManifestError("expected rule name")
                if name in self.rules:
                    raise ManifestError("duplicate rule '%s'" % name)
                b = {}
                i += 1
                while i < len(lines) and lines[i][:1] == " " and lines[i].strip():
                    k, v = _parse_binding(lines[i])
                    if k not in (
                        "command", "description", "rspfile", "rspfile_content",
                        "depfile", "deps", "generator", "restat", "pool", "dyndep", "msvc_deps_prefix",
                    ):
                        raise ManifestError("unexpected variable '%s'" % k)
                    if k in ("depfile", "deps", "pool", "dyndep"):
                        raise Unsupported("rule binding " + k)
                    b[k] = v
                    i += 1
                if "command" not in b:
                    raise ManifestError("expected 'command =' line")
                if ("rspfile" in b) != ("rspfile_content" in b):
                    raise ManifestError("rspfile and rspfile_content need to be both specified")
                self.rules[name] = b
                continue
            if kw == "build" and " " in l:
                toks = _read_paths(l[6:])
                e = Edge()
                e.idx = len(self.edges)
                outs, k = [], 0
                while k < len(toks) and toks[k][0] == "p":
                    outs.append(evalstr(toks[k][1], self._g))
                    k += 1
                if k < len(toks) and toks[k] == ("s", "|"):
                    raise Unsupported("implicit outputs")
                if not outs:
                    raise ManifestError("expected path")
                if k >= len(toks) or toks[k] != ("s", ":"):
                    raise ManifestError("expected ':'")
                k += 1
                if k >= len(toks) or toks[k][0] != "p":
                    raise ManifestError("expected build command name")
                e.rule = toks[k][1]
                if e.rule not in self.rules:
                    raise ManifestError("unknown build rule '%s'" % e.rule)
                k += 1
                e.outs, e.ins, e.implicit, e.order = outs, [], [], []
                tgt = e.ins
                while k < len(toks):
                    t = toks[k]
                    if t == ("s", "|"):
                        tgt = e.implicit
                    elif t == ("s", "||"):
                        tgt = e.order
                    elif t[0] == "p":
                        tgt.append(evalstr(t[1], self._g))
                    else:
                        raise ManifestError("unexpected ':'")
                    k += 1
                e.vars = {}
                i += 1
                while i < len(lines) and lines[i][:1] == " " and lines[i].strip():
                    kk, v = _parse_binding(lines[i])
                    e.vars[kk] = evalstr(v, lambda n, e=e: e.vars.get(n, self._g(n)))
                    i += 1
                self.edges.append(e)
                continue
            if "=" in l:
                k, v = _parse_binding(l)
                self.globals[k] = evalstr(v, self._g)
                i += 1
                continue
            raise ManifestError("unexpected token: %r" % l[:60])

    # ---- evaluation in edge scope
    _SAFE = re.compile(r"^[A-Za-z0-9_+\-./]*$")

    @classmethod
    def shq(cls, p):
        return p if cls._SAFE.match(p) else "'" + p.replace("'", "'\\''") + "'"

    def binding(self, e, key, _depth=0, escape=None):
        if _depth > 20:
            raise ManifestError("cycle in rule variables")
        if escape is None:
            # ninja: $in/$out are shell-escaped everywhere except in rspfile / depfile paths
            escape = key not in ("rspfile", "depfile")
        q = self.shq if escape else (lambda p: p)

        def lookup(k):
            if k == "in":
                return " ".join(q(p) for p in e.ins)
            if k == "in_newline":
                return "\n".join(q(p) for p in e.ins)
            if k == "out":
                return " ".join(q(p) for p in e.outs)
            if k in e.vars:
                return e.vars[k]
            if k in self.rules[e.rule]:
                return self.binding(e, k, _depth + 1, escape)
            return self._g(k)

        if key in e.vars:
            return e.vars[key]
        r = self.rules[e.rule]
        if key not in r:
            return None
        return evalstr(r[key], lookup)

    def flag(self, e, key):
        """boolean rule/edge binding (restat, generator): true iff non-empty"""
        v = e.vars.get(key)
        if v is None:
            v = self.rules[e.rule].get(key)
        return bool(v)

    def command_for_hash(self, e):
        c = self.binding(e, "command") or ""
        r = self.binding(e, "rspfile_content")
        if self.binding(e, "rspfile"):
            c += ";rspfile=" + (r or "")
        return c

    def ancestors(self, e):
        seen, stack = set(), [e]
        while stack:
            x = stack.pop()
            for i in x.ins + x.implicit + x.order:
                p = self.prod.get(i)
                if p is not None and p.idx not in seen:
                    seen.add(p.idx)
                    stack.append(p)
        return seen


def cmd_hash(s):
    return hashlib.sha1(s.encode("utf-8", "surrogateescape")).hexdigest()


LOG_NAME = ".simninja_log"


def load_log(bdir):
    """append-only JSON-lines log, last entry per output wins, a torn last
    line is ignored (as ninja does with .ninja_log)."""
    log = {}
    try:
        with open(os.path.join(bdir, LOG_NAME), "rb") as f:
            for line in f.read().split(b"\n"):
                try:
                    r = json.loads(line)
                    log[r["o"]] = r
                except Exception:
                    continue
    except FileNotFoundError:
        pass
    return log


def append_log(bdir, out, start, h):
    with open(os.path.join(bdir, LOG_NAME), "ab") as f:
        f.write((json.dumps({"o": out, "mtime": start, "hash": h}) + "\n").encode())


def state_dir(bdir, mf):
    """where the build log lives: the manifest's top-level `builddir` (relative to the directory ninja runs in), created
    on demand as ninja does; the build directory itself when the variable is not set"""
    sub = mf.globals.get("builddir", "") if mf is not None else ""
    if not sub:
        return bdir
    d = os.path.join(bdir, sub)
    os.makedirs(d, exist_ok=True)
    return d


def run_tool(world, bdir, tool, argv):
    """`ninja -t <tool>`: only what has been seen in the wild is modelled; anything else is a harness error."""
    if tool == "restat":
        # BuildLog::Restat: every logged output's recorded mtime becomes its current on-disk mtime (0 if missing)
        try:
            with open(os.path.join(bdir, "build.ninja"), "r", newline="") as f:
                mf = Manifest(f.read())
        except (OSError, UnicodeDecodeError, ManifestError):
            mf = None
        log_dir = state_dir(bdir, mf)
        log = load_log(log_dir)
        if not log:
            return 0
        lines = []
        for o, ent in log.items():
            try:
                m = os.stat(os.path.join(bdir, o)).st_mtime_ns
            except OSError:
                m = 0
            lines.append(json.dumps({"o": o, "mtime": m, "hash": ent["hash"]}))
        with open(os.path.join(log_dir, LOG_NAME), "wb") as f:
            f.write(("\n".join(lines) + "\n").encode())
        return 0
    raise Unsupported("ninja -t " + tool)


def H(*parts):
    return int.from_bytes(hashlib.sha256("|".join(str(p) for p in parts).encode()).digest()[:8], "big")


_SHELL_META = re.compile(r"[;&|<>()`$\\*?\[\]{}~#!\n]")


def split_command(cmd):
    """argv if the command needs no shell features, else None (-> /bin/sh -c)."""
    # look for metacharacters outside single quotes; the '\'' idiom ninja uses to
    # put a single quote inside a quoted path is plain quoting, not a shell feature
    i, n, bare = 0, len(cmd), []
    while i < n:
        c = cmd[i]
        if c == "'":
            j = cmd.find("'", i + 1)
            if j < 0:
                return None
            i = j + 1
            continue
        if c == "\\" and i + 1 < n and cmd[i + 1] == "'":
            i += 2
            continue
        bare.append(c)
        i += 1
    if _SHELL_META.search("".join(bare)) or '"' in "".join(bare):
        return None
    try:
        return shlex.split(cmd)
    except ValueError:
        return None


class Result:
    def __init__(self):
        self.rc = 0
        self.error = None  # manifest-level error text
        self.steps = []  # one dict per executed edge
        self.reasons = {}  # output -> dirtiness reason (None = clean)
        self.anomalies = []  # monitor findings
        self.killed = False
        self.resolved_faults = []
        self.order_sig = None
        self.n_edges = 0
        self.events = 0


class SimNinja:
    def __init__(self, world, bdir, sched, faults, env, step_log, trace=None,
                 readdir_seed=None, kill_after=None, edits=None, shadow=None, targets=None):
        self.targets = list(targets or [])
        self.w = world
        self.bdir = bdir
        self.sched = dict(sched or {})
        self.faults = list(faults or [])
        self.env = env
        self.step_log = step_log
        self.trace = trace
        self.readdir_seed = readdir_seed
        self.kill_after = kill_after
        self.edits = list(edits or [])
        self.shadow = shadow if shadow is not None else {}

    # ---- dirtiness
    def _mtime(self, rel):
        try:
            return os.stat(os.path.join(self.bdir, rel)).st_mtime_ns
        except (FileNotFoundError, NotADirectoryError):
            return None

    def outputs_dirty_reason(self, mf, e, log, most, mtime_of):
        """ninja's RecomputeOutputDirty for every output of e"""
        reason = None
        restat, generator = mf.flag(e, "restat"), mf.flag(e, "generator")
        for o in e.outs:
            m = mtime_of(o)
            ent = log.get(o)
            if m is None:
                reason = reason or "missing-output"
                continue
            used_restat = restat and ent is not None
            if not used_restat and m < most:
                reason = reason or "older-than-input"
            if ent is None:
                if not generator:
                    reason = reason or "no-log-entry"
            else:
                if not generator and ent["hash"] != cmd_hash(mf.command_for_hash(e)):
                    reason = reason or "command-changed"
                if ent["mtime"] < most:
                    reason = reason or "log-older-than-input"
        return reason

    def compute_dirty(self, mf, log):
        dirty = {}
        missing = []
        self.scan_mtime = {}

        def mt(path):
            if path not in self.scan_mtime:
                self.scan_mtime[path] = self._mtime(path)
            return self.scan_mtime[path]

        def visit(e):
            if e.idx in dirty:
                return dirty[e.idx]
            dirty[e.idx] = None  # cycle guard
            reason, most = None, 0
            for i in e.ins + e.implicit:
                p = mf.prod.get(i)
                if p is not None:
                    if visit(p):
                        reason = reason or "upstream"
                m = mt(i)
                if m is None and p is None:
                    missing.append((i, e.outs[0]))
                    reason = reason or "missing-input"
                most = max(most, m or 0)
            for i in e.order:
                p = mf.prod.get(i)
                if p is not None:
                    visit(p)
            reason = reason or self.outputs_dirty_reason(mf, e, log, most, mt)
            dirty[e.idx] = reason
            return reason

        for e in mf.edges:
            visit(e)
        return dirty, missing

    # ---- allowed-access closure for the happens-before monitor
    def _closure(self, mf, e, anc):
        allowed = set()
        for idx in list(anc) + [e.idx]:
            x = mf.edges[idx]
            for p in x.ins + x.implicit + x.order + x.outs:
                allowed.add(os.path.realpath(os.path.join(self.bdir, p)))
        return allowed

    def run(self):
        res = Result()
        w, bdir = self.w, self.bdir
        try:
            with open(os.path.join(bdir, "build.ninja"), "r", newline="") as f:
                text = f.read()
        except (FileNotFoundError, NotADirectoryError):
            res.rc, res.error = 1, "loading 'build.ninja': No such file or directory"
            return res
        except UnicodeDecodeError:
            res.rc, res.error = 1, "build.ninja is not valid UTF-8 (torn multibyte sequence)"
            return res
        try:
            mf = Manifest(text)
            for e in mf.edges:  # surface evaluation errors before running anything
                mf.command_for_hash(e)
        except ManifestError as x:
            res.rc, res.error = 1, "manifest: %s" % x
            return res
        res.n_edges = len(mf.edges)
        logdir = state_dir(bdir, mf)
        log = load_log(logdir)
        dirty, missing = self.compute_dirty(mf, log)
        unwanted = set()
        if self.targets:
            # `ninja <targets>`: only the requested outputs and what they need
            want = set()
            for t in self.targets:
                te = mf.prod.get(os.path.normpath(t))
                if te is None:
                    if self._mtime(t) is None:
                        res.rc, res.error = 1, "unknown target '%s'" % t
                        return res
                    continue  # an existing source file as target: nothing to do
                want |= mf.ancestors(te) | {te.idx}
            for e in mf.edges:
                if e.idx not in want:
                    dirty[e.idx] = None
                    unwanted.add(e.idx)
            missing = [m_ for m_ in missing if mf.prod[m_[1]].idx in want]
        for e in mf.edges:
            res.reasons[e.outs[0]] = dirty[e.idx]
        if missing:
            res.rc = 1
            res.error = "'%s', needed by '%s', missing and no known rule to make it" % missing[0]
            return res

        real_bdir = os.path.realpath(bdir)
        out_owner = {}  # realpath -> edge idx (declared outputs + rspfiles)
        for e in mf.edges:
            for o in e.outs:
                out_owner[os.path.realpath(os.path.join(bdir, o))] = e.idx
            rsp = mf.binding(e, "rspfile")
            if rsp:
                out_owner[os.path.realpath(os.path.join(bdir, rsp))] = e.idx
        for path, owner_out in w.observed_owner.get(real_bdir, {}).items():
            p = mf.prod.get(owner_out)
            if p is not None and path not in out_owner:
                out_owner[path] = p.idx
        anc_cache = {}

        def anc(e):
            if e.idx not in anc_cache:
                anc_cache[e.idx] = mf.ancestors(e)
            return anc_cache[e.idx]

        # staleness diagnostics for edges judged clean
        for e in mf.edges:
            if dirty[e.idx] is None and e.idx not in unwanted:
                lw = w.last_write.get((real_bdir, e.outs[0]))
                if lw is not None and not lw["ok"]:
                    # would ninja's own rules, applied to the log entry of the last SUCCESSFUL run, call this edge clean?
                    # (yes = the inputs and the command are back to what that run saw; no = something else vouched for it)
                    sh0 = self.shadow.get((real_bdir, e.outs[0]))
                    most = max([self.scan_mtime.get(i) or 0 for i in e.ins + e.implicit] or [0])
                    explained = bool(sh0 is not None and sh0.get("start") is not None and sh0["cmd"] == cmd_hash(mf.command_for_hash(e)) and sh0["start"] >= most)
                    res.anomalies.append({"k": "stale.failed_output_trusted", "edge": e.outs[0], "rule": e.rule, "written_in_inv": lw["inv"],
                                          "explained_by_log_of_last_success": explained})
                sh = self.shadow.get((real_bdir, e.outs[0]))
                if sh is None:
                    continue
                ent = log.get(e.outs[0])
                for path, digest in sh["reads"].items():
                    cur = w.digest(path)
                    if cur != digest:
                        try:
                            m = os.stat(path).st_mtime_ns
                        except OSError:
                            m = None
                        leaf = path not in out_owner
                        declared = path in self._closure(mf, e, anc(e))
                        res.anomalies.append(
                            {
                                "k": "stale.clean_but_changed",
                                "edge": e.outs[0],
                                "rule": e.rule,
                                "path": w.rel(path),
                                "leaf": leaf,
                                "declared": declared,
                                "backdated": bool(
                                    m is not None and ent is not None and m <= ent["mtime"]
                                ),
                                "gone": cur is None,
                            }
                        )

        # ---- resolve deferred faults onto dirty edges
        dirty_edges = [e for e in mf.edges if dirty[e.idx]]
        fault_for = {}
        for f in self.faults:
            f = dict(f)
            if "edge" not in f:
                cands = [e for e in dirty_edges if e.outs[0] not in fault_for]
                if f.get("rules"):
                    pref = [e for e in cands if any(e.rule.startswith(r) for r in f["rules"])]
                    cands = pref if f["kind"] == "inner_fail" else (pref or cands)
                if not cands:
                    res.resolved_faults.append({"planned": f, "resolved": None})
                    continue
                e = min(cands, key=lambda e: H(f.get("pick", 0), e.outs[0]))
                f["edge"] = e.outs[0]
            if f["kind"] in ("torn_efbig", "torn_kill") and "n" not in f:
                size = self.w.last_size.get((real_bdir, f["edge"]))
                if size:
                    f["n"] = max(0, min(size - 1, int(f.get("frac", 0.5) * size)))
                else:
                    f["n"] = int(f.get("n_fallback", 64))
            f.pop("pick", None)
            f.pop("frac", None)
            f.pop("n_fallback", None)
            f.pop("rules", None)
            fault_for[f["edge"]] = f
            res.resolved_faults.append({"resolved": f})

        # ---- scheduling
        j = max(1, int(self.sched.get("j", 1)))
        policy = self.sched.get("policy", "manifest")
        sseed = self.sched.get("seed", 0)
        exec_at = self.sched.get("exec_at", "finish")
        target_anc = set()
        if policy == "dfs" and dirty_edges:
            t = self.sched.get("target")
            te = mf.prod.get(t) if t else None
            if te is None:
                te = min(dirty_edges, key=lambda e: H(sseed, "target", e.outs[0]))
            target_anc = set(anc(te)) | {te.idx}

        def prio(kind, e):
            if policy == "manifest":
                return (0 if kind == "finish" else 1, e.idx)
            if policy == "reverse":
                return (0 if kind == "finish" else 1, -e.idx)
            if policy == "bfs":  # keep as many in flight as possible
                return (0 if kind == "start" else 1, H(sseed, kind, e.outs[0]))
            if policy == "dfs":
                return (0 if e.idx in target_anc else 1, 0 if kind == "finish" else 1, H(sseed, e.outs[0]))
            return (H(sseed, kind, e.outs[0]),)

        pending = {e.idx for e in dirty_edges}
        done_ok, running, failed = set(), [], False
        order_sig = hashlib.sha256()
        started_at, exec_state, finished = {}, {}, 0
        edits = sorted(self.edits, key=lambda d: d["after"])

        def ready(e):
            for i in e.ins + e.implicit + e.order:
                p = mf.prod.get(i)
                if p is not None and dirty[p.idx] and p.idx not in done_ok and p.idx not in cleaned:
                    return False
            return True

        def execute(e, override_fault=None):
            f = override_fault if override_fault is not None else fault_for.get(e.outs[0])
            rec = {"out": e.outs[0], "rule": e.rule, "reason": dirty[e.idx], "fault": None, "fired": False,
                   "ins": list(e.ins), "rsp": mf.binding(e, "rspfile")}
            w.settle()
            cmd = mf.binding(e, "command")
            rec["cmd"] = cmd
            if f is not None:
                rec["fault"] = {k: f[k] for k in ("kind", "n", "code", "mode", "signal", "k") if k in f}
            if f is not None and f["kind"] == "fail_before":
                rec.update(status=["exit", int(f.get("code", 1))], fired=True, reads=[], writes=[], wdigests={})
                return rec
            argv = split_command(cmd)
            if argv is None:
                argv = ["/bin/sh", "-c", cmd]
                rec["via_sh"] = True
            elif not argv:
                rec.update(status=["exit", 0], reads=[], writes=[], wdigests={})
                return rec
            lf = None
            if f is not None and f["kind"] in ("torn_efbig", "torn_kill"):
                lf = {"kind": f["kind"], "n": f["n"]}
            elif f is not None and f["kind"] == "kill_at_op":
                lf = {"kind": "kill_at_op", "k": f.get("k", 0), "root": w.root}
            env, marker = self.env, None
            if f is not None and f["kind"] == "inner_fail" and (e.rule in ("pngquant", "write_bitmap") or e.rule.startswith("picosvg")):
                # the tool the step runs fails, not the step itself: a failing `pngquant` first on PATH
                marker = os.path.join(os.path.dirname(self.step_log), "inner-%d.marker" % res.events)
                env = dict(env)
                env["PATH"] = os.path.join(os.path.dirname(os.path.abspath(__file__)), "shim_fail") + ":" + env["PATH"]
                env["NSIM_INNER_FAULT"] = json.dumps({"code": f.get("code", 2), "mode": f.get("mode", "no_output"), "signal": f.get("signal"), "marker": marker})
            backup = None
            if f is not None and f["kind"] == "fail_output_lost":
                # the command does everything EXCEPT deliver its declared outputs (it dies in its last stage): side effects
                # of earlier stages stay, the outputs are what they were before, the status is a failure
                backup = {}
                for o in e.outs:
                    po = os.path.join(bdir, o)
                    if os.path.isfile(po):
                        with open(po, "rb") as fh:
                            backup[po] = (fh.read(), os.stat(po).st_mtime_ns)
                    elif not os.path.exists(po):
                        backup[po] = None
            watcher = None
            try:
                watcher = inotify.Watcher(real_bdir)
                for dp, _dns, _fns in os.walk(w.tmpdir):
                    watcher._add(dp)
            except OSError:
                pass
            pid = zygote.launch(
                argv, bdir, w.launch_env(env),
                os.devnull if lf else self.step_log,
                fault=lf, trace=None if lf else self.trace, proc=e.outs[0],
                readdir_seed=self.readdir_seed,
            )
            st = zygote.wait(pid)
            touched = {}
            if watcher is not None:
                touched = watcher.drain()
                watcher.close()
            if backup is not None:
                for po, old_ in backup.items():
                    if old_ is None:
                        try:
                            os.unlink(po)
                        except OSError:
                            pass
                    else:
                        with open(po, "wb") as fh:
                            fh.write(old_[0])
                        os.utime(po, ns=(old_[1], old_[1]))
                st = ("exit", int(f.get("code", 1)))
                rec["fired"] = True
            reads, writes = w.settle()
            # scratch files that came and went while the step ran are writes of this step too
            transient = sorted(p for p in touched if os.path.basename(p) != LOG_NAME and (not os.path.lexists(p) or w.is_under(p, w.tmpdir)))
            if transient:
                # names in TMPDIR are usually random (mkstemp): they take part in the race detection below but stay out of the event log
                rec["transient"] = [w.rel(p) for p in transient if not w.is_under(p, w.tmpdir)]
                writes = set(writes) | set(transient)
            if f is not None and f["kind"] == "fail_after":
                st = ("exit", int(f.get("code", 1)))
                rec["fired"] = True
            if lf and st != ("exit", 0):
                rec["fired"] = True
            if marker is not None and os.path.exists(marker):
                rec["fired"] = True
                os.unlink(marker)
            rec["status"] = list(st)
            for o in e.outs:
                op_ = os.path.realpath(os.path.join(bdir, o))
                if op_ in writes or any(x.startswith(op_ + os.sep) for x in writes):
                    w.last_write[(real_bdir, o)] = {"ok": st == ("exit", 0), "inv": w.inv_count}
            rec["reads"] = sorted(w.rel(p) for p in reads)
            logged = sorted(p for p in writes if not w.is_under(p, w.tmpdir))
            rec["writes"] = [w.rel(p) for p in logged]
            rec["wdigests"] = {w.rel(p): w.digest(p) for p in logged}
            # ---- happens-before / declared-access monitor
            allowed = self._closure(mf, e, anc(e))
            rspf = mf.binding(e, "rspfile")
            if rspf:
                allowed.add(os.path.realpath(os.path.join(bdir, rspf)))
            myanc = anc(e)
            for p in sorted(reads | writes):
                owner = out_owner.get(p)
                under_out = None
                if owner is None:
                    for o, idx in out_owner.items():
                        if p.startswith(o + os.sep):
                            under_out = idx
                            break
                    owner = under_out
                if owner is not None:
                    if owner != e.idx and owner not in myanc:
                        res.anomalies.append(
                            {
                                "k": "hb.unordered_access",
                                "edge": e.outs[0],
                                "path": w.rel(p),
                                "owner": mf.edges[owner].outs[0],
                                "mode": "write" if p in writes else "read",
                            }
                        )
                    continue
                if p in writes:
                    # undeclared scratch output: remember who made it
                    if w.is_under(p, real_bdir) or w.is_under(p, w.tmpdir):
                        prev = w.observed_owner.setdefault(real_bdir, {}).get(p)
                        if prev is not None and prev != e.outs[0]:
                            pe = mf.prod.get(prev)
                            if pe is not None and pe.idx not in myanc:
                                res.anomalies.append(
                                    {"k": "hb.unordered_access", "edge": e.outs[0], "path": w.rel(p),
                                     "owner": prev, "mode": "write"}
                                )
                        w.observed_owner[real_bdir][p] = e.outs[0]
                        out_owner[p] = e.idx
                    else:
                        res.anomalies.append(
                            {"k": "hb.write_outside_build_dir", "edge": e.outs[0], "path": w.rel(p)}
                        )
                    continue
                if p not in allowed and not any(p.startswith(a + os.sep) for a in allowed):
                    res.anomalies.append(
                        {"k": "hb.undeclared_read", "edge": e.outs[0], "rule": e.rule, "path": w.rel(p)}
                    )
            return rec

        first_failure = [None]
        node_dirty = {}
        for e in mf.edges:
            for o in e.outs:
                node_dirty[o] = bool(dirty[e.idx])
        cleaned = set()  # edges taken out of the plan by a restat edge that left its output untouched

        def clean_node(out):
            """ninja's Plan::CleanNode: the output turned out unchanged; dependents whose only reason to run was this node are dropped"""
            node_dirty[out] = False
            for oe in mf.edges:
                if out not in oe.ins and out not in oe.implicit:
                    continue
                if oe.idx not in pending:
                    continue
                if any(node_dirty.get(i, False) for i in oe.ins + oe.implicit):
                    continue
                most = max([self.scan_mtime.get(i) or 0 for i in oe.ins + oe.implicit] or [0])
                if self.outputs_dirty_reason(mf, oe, log, most, lambda p_: self.scan_mtime.get(p_, self._mtime(p_))) is None:
                    pending.discard(oe.idx)
                    cleaned.add(oe.idx)
                    res.steps.append({"restat_cleaned": oe.outs[0], "by": out})
                    for o2 in oe.outs:
                        clean_node(o2)

        def finish_bookkeeping(e, rec, start_ns):
            nonlocal failed
            ok = rec["status"] == ["exit", 0]
            if ok:
                rsp = mf.binding(e, "rspfile")
                if rsp:
                    try:
                        os.unlink(os.path.join(bdir, rsp))
                    except FileNotFoundError:
                        pass
                h = cmd_hash(mf.command_for_hash(e))
                record_mtime = start_ns
                if mf.flag(e, "restat") or mf.flag(e, "generator"):
                    node_cleaned = False
                    for o in e.outs:
                        new_m = self._mtime(o)
                        if new_m is None:
                            failed = True  # ninja: stat error
                            continue
                        if new_m > record_mtime:
                            record_mtime = new_m
                        if mf.flag(e, "restat") and self.scan_mtime.get(o) == new_m:
                            clean_node(o)
                            node_cleaned = True
                    if node_cleaned:
                        record_mtime = start_ns
                for o in e.outs:
                    append_log(logdir, o, record_mtime, h)
                    log[o] = {"o": o, "mtime": record_mtime, "hash": h}
                    try:
                        st = os.stat(os.path.join(bdir, o))
                        w.last_size[(real_bdir, o)] = st.st_size
                    except OSError:
                        pass
                self.shadow[(real_bdir, e.outs[0])] = {
                    "cmd": h,
                    "start": start_ns,
                    "reads": {w.abs(p): w.digest(w.abs(p)) for p in rec["reads"]},
                }
                done_ok.add(e.idx)
            else:
                failed = True
                if first_failure[0] is None:
                    # ninja >= 1.12 exits with the status of the (first) failing command: its exit code, or 128 + signal
                    st_ = rec["status"]
                    first_failure[0] = (st_[1] if st_[0] == "exit" else 128 + st_[1]) or 1
            w.settle()

        while True:
            # user edits scheduled between events
            while edits and edits[0]["after"] <= finished:
                ed = edits.pop(0)
                for op in ed["ops"]:
                    w.apply_user_op(op)
                res.steps.append({"edit": ed["ops"]})
            if self.kill_after is not None and finished >= self.kill_after.get("edges", 0):
                # SIGKILL of the whole invocation: edges in flight are torn / lost
                mode = self.kill_after.get("inflight", "torn")
                for e in list(running):
                    if exec_at == "finish":
                        if mode == "torn":
                            size = w.last_size.get((real_bdir, e.outs[0])) or 128
                            n = H(sseed, "killn", e.outs[0]) % max(1, size)
                            rec = execute(e, {"kind": "torn_kill", "n": n, "edge": e.outs[0]})
                            rec["killed_inflight"] = True
                            res.steps.append(rec)
                        elif mode == "complete":
                            rec = execute(e, None)
                            rec["killed_inflight"] = True
                            res.steps.append(rec)
                    else:
                        # already executed: output complete, but no log entry
                        rec = exec_state.pop(e.idx)
                        rec["killed_inflight"] = True
                        res.steps.append(rec)
                res.killed = True
                res.rc = 137
                break
            cands = []
            if not failed and len(running) < j:
                cands += [("start", mf.edges[i]) for i in sorted(pending) if ready(mf.edges[i])]
            cands += [("finish", e) for e in running]
            if not cands:
                break
            kind, e = min(cands, key=lambda c: prio(c[0], c[1]))
            res.events += 1
            if kind == "start":
                pending.discard(e.idx)
                running.append(e)
                for o in e.outs:
                    d = os.path.dirname(os.path.join(bdir, o))
                    os.makedirs(d, exist_ok=True)
                rsp = mf.binding(e, "rspfile")
                if rsp:
                    with open(os.path.join(bdir, rsp), "w") as f:
                        f.write(mf.binding(e, "rspfile_content") or "")
                w.settle()
                started_at[e.idx] = w.tick()
                order_sig.update(("S:%s\n" % e.outs[0]).encode())
                if exec_at == "start":
                    exec_state[e.idx] = execute(e)
            else:
                running.remove(e)
                if exec_at == "start":
                    rec = exec_state.pop(e.idx)
                else:
                    rec = execute(e)
                rec["start_ns"] = started_at[e.idx]
                res.steps.append(rec)
                order_sig.update(("F:%s\n" % e.outs[0]).encode())
                finish_bookkeeping(e, rec, started_at[e.idx])
                finished += 1
        if failed and not res.killed:
            res.rc = first_failure[0] or 1
        res.order_sig = order_sig.hexdigest()[:16]
        w.settle()
        return res

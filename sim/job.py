"""Execute one job (an explicit operation list) in a fresh world and return its
event log.  A job is plain JSON: it is also the body of a replay file."""
import fcntl
import hashlib
import json
import os
import shutil

from . import world as W


def _strip_for_fingerprint(ev):
    if isinstance(ev, dict):
        return {k: _strip_for_fingerprint(v) for k, v in ev.items() if k not in ("driver_tail", "steps_tail", "wall_s")}
    if isinstance(ev, list):
        return [_strip_for_fingerprint(v) for v in ev]
    return ev


def fingerprint(events):
    blob = json.dumps(_strip_for_fingerprint(events), sort_keys=True).encode()
    return hashlib.sha256(blob).hexdigest()


def run_job(job):
    base = os.path.join(W.scratch_base(), job["root_id"])
    os.makedirs(os.path.dirname(base), exist_ok=True)
    # the path is part of the run's identity (replays reuse it byte for byte), so two
    # concurrent runs of the same case must take turns
    lock = os.open(base + ".lock", os.O_CREAT | os.O_RDWR, 0o644)
    fcntl.flock(lock, fcntl.LOCK_EX)
    w = None
    events = []
    try:
        shutil.rmtree(base, ignore_errors=True)
        w = W.World(base, clock_seed=job.get("clock_seed", 0), pid_base=job.get("pid_base", 1000))
        for op in job["ops"]:
            k = op["op"]
            if k == "invoke":
                r = w.invoke(op, readdir_seed=job.get("readdir_seed"), trace=job.get("trace", True))
                bd = op.get("build_dir", "build")
                bdabs = os.path.normpath(os.path.join(w.abs(op.get("cwd", ".")), bd))
                r["listing"] = w.listing(bdabs)
                r["stamps"] = {
                    n: w.stamp_of(os.path.join(bdabs, n))
                    for n in r["listing"]
                    if "/" not in n and n.rsplit(".", 1)[-1] in ("ttf", "otf")
                }
                r["label"] = op.get("label")
                try:  # probe: how often the pngquant wrapper took its "pngquant gave up, reuse the input" path
                    with open(os.path.join(w.side, "inv%d.steps.log" % r["inv"]), "rb") as f:
                        r["pngquant_giveups"] = f.read().count(b"Reuse ")
                except OSError:
                    r["pngquant_giveups"] = 0
                r["now"] = w.now
                if r["rc"] != 0 or job.get("keep_tails"):
                    r["steps_tail"] = w.step_log_tail(r["inv"])
                if not job.get("keep_trace", True):
                    r.pop("trace", None)
                events.append({"op": "invoke", "result": r})
            elif k == "inspect":
                from .inspect_font import inspect_font

                w.settle()
                pth = w.abs(op["path"])
                info = inspect_font(pth) if os.path.exists(pth) else {"ok": False, "error": "missing"}
                w.settle()
                events.append({"op": "inspect", "label": op.get("label"), "path": op["path"], "result": info})
            elif k == "listing":
                events.append({"op": "listing", "label": op.get("label"), "listing": w.listing(op["path"])})
            else:
                w.apply_user_op(op)
                ev = {"op": k}
                if k == "purge_strays":
                    ev["strays"] = list(w.strays)
                events.append(ev)
        sim_ns = w.now - W.T0
    finally:
        if w is not None:
            w.close()
        if not job.get("keep_world"):
            shutil.rmtree(base, ignore_errors=True)
        os.close(lock)  # the (empty) lock file stays: unlinking it would race with a waiter
    return {
        "id": job.get("id"),
        "events": events,
        "sim_ns": sim_ns,
        "fingerprint": fingerprint(events),
    }

"""The simulated world of one run: a directory tree on tmpfs whose timestamps
come from a simulated clock, the user operations that mutate it, and the
``invoke`` operation that runs the real nanoemoji driver against SimNinja."""
import hashlib
import json
import os
import select
import shutil
import signal
import socket
import stat as statmod
import sys

from . import simninja, zygote
from .simninja import H

SIM_DIR = os.path.dirname(os.path.abspath(__file__))
VERIF = os.path.dirname(SIM_DIR)
CORPUS = os.path.join(VERIF, "corpus")
SHIM_DIR = os.path.join(SIM_DIR, "shim")

T0 = 1_000_000_000_000_000_000  # simulated epoch (ns); everything >= REAL is "touched by a real process"
REAL = 1_600_000_000_000_000_000
SOURCE_DATE_EPOCH = "1600000000"


def scratch_base():
    for base in ("/dev/shm", os.environ.get("TMPDIR") or "/tmp"):
        if os.path.isdir(base) and os.access(base, os.W_OK):
            return os.path.join(base, "nsim")
    raise RuntimeError("no scratch space")


# ---------------------------------------------------------------------------
# content references
# ---------------------------------------------------------------------------


def gen_svg(spec):
    """small parametric SVG generator; spec is a dict, output is deterministic."""
    kind = spec.get("kind", "rects")
    vb = spec.get("viewbox", [0, 0, 100, 100])
    n = int(spec.get("n", 2))
    s = int(spec.get("seed", 0))
    body = []
    cols = ["#e91e63", "#3f51b5", "#009688", "#ff9800", "#795548", "#607d8b", "blue", "red", "#00A1DE"]
    w, h = vb[2], vb[3]
    for i in range(n):
        c = cols[(s + i) % len(cols)]
        x = vb[0] + (H(s, "x", i) % 60) * w / 100.0
        y = vb[1] + (H(s, "y", i) % 60) * h / 100.0
        sz = (10 + H(s, "s", i) % 30) * min(w, h) / 100.0
        rot = spec.get("rot", 0)
        tr = ""
        if rot:
            tr = ' transform="rotate(%d %g %g)"' % (rot * (i + 1), x + sz / 2, y + sz / 2)
        op = ""
        if spec.get("opacity"):
            op = ' opacity="0.%d"' % (3 + (s + i) % 6)
        if kind == "rects":
            body.append('<rect x="%g" y="%g" width="%g" height="%g" fill="%s"%s%s/>' % (x, y, sz, sz * 0.6, c, tr, op))
        elif kind == "ellipses":
            body.append('<ellipse cx="%g" cy="%g" rx="%g" ry="%g" fill="%s"%s%s/>' % (x + sz / 2, y + sz / 2, sz / 2, sz / 3, c, tr, op))
        elif kind == "paths":
            body.append('<path d="M%g,%g l%g,0 l0,%g z" fill="%s"%s%s/>' % (x, y, sz, sz, c, tr, op))
        elif kind == "outside":  # content partly outside the viewBox
            body.append('<rect x="%g" y="%g" width="%g" height="%g" fill="%s"/>' % (vb[0] - w * 0.25 + i * 7, y, w * 0.5, sz, c))
        elif kind == "gradient":
            gid = "g%d" % i
            body.append(
                '<defs><linearGradient id="%s" x1="%g" y1="%g" x2="%g" y2="%g" gradientUnits="userSpaceOnUse">'
                '<stop offset="0" stop-color="%s"/><stop offset="1" stop-color="%s"/></linearGradient></defs>'
                '<rect x="%g" y="%g" width="%g" height="%g" fill="url(#%s)"/>'
                % (gid, x, y, x + sz, y + sz, c, cols[(s + i + 3) % len(cols)], x, y, sz, sz, gid)
            )
        elif kind == "shared":  # the same shape translated: exercises reuse
            body.append('<path d="M%g,%g l%g,0 l0,%g l-%g,0 z" fill="%s"%s/>' % (vb[0] + 5 + 22 * i, vb[1] + 5 + 11 * i, 15.0, 15.0, 15.0, c, op))
    return '<svg xmlns="http://www.w3.org/2000/svg" viewBox="%g %g %g %g">\n%s\n</svg>\n' % (
        vb[0], vb[1], vb[2], vb[3], "\n".join(body),
    )


def content_bytes(ref):
    if isinstance(ref, dict):
        return gen_svg(ref).encode()
    if ref.startswith("corpus:"):
        with open(os.path.join(CORPUS, ref[7:]), "rb") as f:
            return f.read()
    if ref.startswith("text:"):
        return ref[5:].encode()
    if ref.startswith("gen:"):
        return gen_svg(json.loads(ref[4:])).encode()
    raise ValueError("bad content ref %r" % (ref,))


# ---------------------------------------------------------------------------


class World:
    def __init__(self, base, clock_seed=0, pid_base=1000):
        self.pid_base = pid_base
        self.base = base  # <scratch>/<id>
        self.root = os.path.join(base, "w")
        self.side = os.path.join(base, "side")
        os.makedirs(self.root)
        os.makedirs(self.side)
        self.tmpdir = os.path.join(self.side, "tmp")
        os.makedirs(self.tmpdir)
        self.real_root = os.path.realpath(self.root)
        self.now = T0
        self.clock_seed = clock_seed
        self._ticks = 0
        self.observed_owner = {}
        self.last_size = {}
        self.last_write = {}
        self.user_paths = set()
        self.strays = []
        self.shadow = {}
        self.inv_count = 0
        self.sock_path = os.path.join(self.side, "sock")
        self.srv = socket.socket(socket.AF_UNIX)
        self.srv.bind(self.sock_path)
        self.srv.listen(4)
        self.atime_ok = None
        self.settle()

    def close(self):
        try:
            self.srv.close()
        except OSError:
            pass

    # ---- paths
    def abs(self, p):
        if p.startswith("$SIDE/"):  # programs the user has installed: not part of the project tree
            return os.path.join(self.side, p[6:])
        return p if os.path.isabs(p) else os.path.normpath(os.path.join(self.root, p))

    def rel(self, p):
        rp = p
        if rp.startswith(self.real_root + os.sep):
            return rp[len(self.real_root) + 1 :]
        if rp.startswith(self.root + os.sep):
            return rp[len(self.root) + 1 :]
        return rp

    @staticmethod
    def is_under(p, d):
        return p == d or p.startswith(d + os.sep)

    # ---- clock
    def tick(self, dt=None):
        if dt is None:
            self._ticks += 1
            u = (H(self.clock_seed, "dt", self._ticks) % 10_000) / 10_000.0
            dt = int(1_000_000 * (10 ** (u * 8.4)))  # 1 ms .. ~3 days, log-uniform
        self.now += max(1, int(dt))
        return self.now

    # ---- stamping
    def settle(self):
        """Stamp everything real processes touched since the last call with the
        simulated time; returns (reads, writes) as sets of real paths of files."""
        reads, writes = set(), set()
        T = self.tick()
        linked = {}  # (dev, ino) -> "w" / "r": every name of a hard-linked file gets the verdict of the first one visited
        for dp, dns, fns in os.walk(self.real_root):
            for name in fns + dns:
                p = os.path.join(dp, name)
                try:
                    st = os.lstat(p)
                except FileNotFoundError:
                    continue
                isdir = statmod.S_ISDIR(st.st_mode)
                if name == simninja.LOG_NAME:
                    continue
                if not isdir and st.st_nlink > 1:
                    key = (st.st_dev, st.st_ino)
                    if key in linked:
                        (writes if linked[key] == "w" else reads if linked[key] == "r" else set()).add(p)
                        continue
                    linked[key] = "w" if st.st_mtime_ns >= REAL else ("r" if st.st_atime_ns != st.st_mtime_ns else "-")
                if st.st_mtime_ns >= REAL:
                    if not isdir and not statmod.S_ISLNK(st.st_mode):
                        writes.add(p)
                    try:
                        os.utime(p, ns=(T, T), follow_symlinks=False)
                    except OSError:
                        pass
                elif st.st_atime_ns != st.st_mtime_ns:
                    if not isdir and not statmod.S_ISLNK(st.st_mode):
                        reads.add(p)
                    try:
                        os.utime(p, ns=(st.st_mtime_ns, st.st_mtime_ns), follow_symlinks=False)
                    except OSError:
                        pass
        return reads, writes

    def digest(self, p):
        p = self.abs(p)
        try:
            st = os.lstat(p)
        except (FileNotFoundError, NotADirectoryError):
            return None
        if statmod.S_ISDIR(st.st_mode):
            h = hashlib.sha256()
            for dp, dns, fns in os.walk(p):
                dns.sort()
                for f in sorted(fns):
                    q = os.path.join(dp, f)
                    h.update(os.path.relpath(q, p).encode() + b"\0" + (self.digest(q) or "-").encode() + b"\n")
            return "dir:" + h.hexdigest()
        if statmod.S_ISLNK(st.st_mode):
            try:
                return self.digest(os.path.realpath(p))
            except RecursionError:
                return None
        with open(p, "rb") as f:
            d = hashlib.sha256(f.read()).hexdigest()
        if st.st_mtime_ns < REAL:
            os.utime(p, ns=(st.st_atime_ns, st.st_mtime_ns))
        return d

    def listing(self, d):
        """{relpath: sha256} of every file under directory d (relative to d)."""
        d = self.abs(d)
        out = {}
        if not os.path.isdir(d):
            return out
        for dp, dns, fns in os.walk(d):
            dns.sort()
            for f in sorted(fns):
                if f == simninja.LOG_NAME:
                    continue
                q = os.path.join(dp, f)
                out[os.path.relpath(q, d)] = self.digest(q)
        return out

    def stamp_of(self, p):
        try:
            return os.stat(self.abs(p)).st_mtime_ns
        except OSError:
            return None

    # ---- user operations
    def apply_user_op(self, op):
        k = op["op"]
        self.settle()
        for key in ("path", "dst"):
            if key in op and k not in ("remove", "purge_strays"):
                self.user_paths.add(self.abs(op[key]))
        if k == "purge_strays":
            # a clean build starts from what the USER put there: files that processes of earlier invocations left
            # outside the build directories are removed (and counted)
            keep = [self.abs(d) for d in op.get("keep_dirs", [])]
            gone = []
            for dp, dns, fns in os.walk(self.real_root):
                for f in fns:
                    p_ = os.path.join(dp, f)
                    if p_ in self.user_paths or any(self.is_under(p_, os.path.realpath(d)) for d in keep):
                        continue
                    if any(self.is_under(p_, os.path.realpath(u)) for u in self.user_paths if os.path.isdir(u)):
                        continue
                    gone.append(self.rel(p_))
                    os.unlink(p_)
            self.strays = gone
            self.settle()
            return
        if "dt_ns" in op:
            self.tick(op["dt_ns"])
        if k == "write":
            p = self.abs(op["path"])
            os.makedirs(os.path.dirname(p), exist_ok=True)
            data = content_bytes(op["content"])
            if isinstance(op["content"], str) and op["content"].startswith("text:"):
                data = data.replace(b"$ROOT", self.root.encode())
            with open(p, "wb") as f:
                f.write(data)
        elif k == "remove":
            p = self.abs(op["path"])
            if os.path.isdir(p) and not os.path.islink(p):
                shutil.rmtree(p)
            else:
                try:
                    os.unlink(p)
                except FileNotFoundError:
                    pass
        elif k == "rename":
            src, dst = self.abs(op["src"]), self.abs(op["dst"])
            if os.path.lexists(src):
                os.makedirs(os.path.dirname(dst), exist_ok=True)
                os.rename(src, dst)  # keeps its (simulated) mtime, as POSIX does
        elif k == "copy_p":
            src, dst = self.abs(op["src"]), self.abs(op["dst"])
            if os.path.isfile(src):
                os.makedirs(os.path.dirname(dst), exist_ok=True)
                st = os.stat(src)
                shutil.copyfile(src, dst)
                os.utime(src, ns=(st.st_mtime_ns, st.st_mtime_ns))
                os.utime(dst, ns=(st.st_mtime_ns, st.st_mtime_ns))  # cp -p
        elif k == "touch":
            p = self.abs(op["path"])
            if os.path.lexists(p):
                os.utime(p)
        elif k == "mkdir":
            os.makedirs(self.abs(op["path"]), exist_ok=True)
        elif k == "symlink":
            dst = self.abs(op["path"])
            os.makedirs(os.path.dirname(dst), exist_ok=True)
            if os.path.lexists(dst):
                os.unlink(dst)
            os.symlink(op["target"], dst)
        else:
            raise ValueError("unknown user op %r" % k)
        self.settle()

    # ---- invocation
    def child_env(self, extra=None):
        env = {
            "PATH": SHIM_DIR + ":" + zygote.VENV_BIN + ":/usr/bin:/bin",
            "NSIM_SOCK": self.sock_path,
            "SOURCE_DATE_EPOCH": SOURCE_DATE_EPOCH,
            "HOME": os.path.join(self.side, "home"),
            "LANG": "C.UTF-8",
            "LC_ALL": "C.UTF-8",
            "PYTHONDONTWRITEBYTECODE": "1",
            # a step that has to go through /bin/sh (not forked from the zygote) still gets the run's hash seed
            "PYTHONHASHSEED": os.environ.get("PYTHONHASHSEED", "0"),
            # scratch space of the steps is part of the watched world (fixed scratch names shared by unordered steps are a race)
            "TMPDIR": self.tmpdir,
        }
        if extra:
            env.update({k: v.replace("$ROOT", self.root).replace("$SIDE", self.side) for k, v in extra.items()})
        for k in ("HOME", "TMPDIR"):
            if env.get(k, "").startswith(self.base + os.sep):
                os.makedirs(env[k], exist_ok=True)
        return env

    def launch_env(self, env):
        """per-process part of the environment: the simulated time at launch and a deterministic process id"""
        self._launches = getattr(self, "_launches", 0) + 1
        e = dict(env)
        e["NSIM_NOW_NS"] = str(self.now)
        e["NSIM_FAKE_PID"] = str(self.pid_base + self._launches)
        return e

    def invoke(self, op, readdir_seed=None, trace=True):
        """run the real driver; returns a dict describing the invocation."""
        self.inv_count += 1
        k = self.inv_count
        self.settle()
        cwd = self.abs(op.get("cwd", "."))
        argv = ["nanoemoji"] + [a.replace("$ROOT", self.root) for a in op["argv"]]
        env = self.child_env(op.get("env"))
        drv_log = os.path.join(self.side, "inv%d.driver.log" % k)
        step_log = os.path.join(self.side, "inv%d.steps.log" % k)
        trace_path = os.path.join(self.side, "inv%d.trace" % k) if trace else None
        out = {"inv": k, "ninja": [], "driver_fault": op.get("driver_fault")}
        df = op.get("driver_fault")
        if df and df["kind"] == "fail_before":
            out["driver_status"] = ["signal", 9]
            out["rc"] = 137
            out["driver_fault_fired"] = True
            return out
        lf = None
        if df and df["kind"] in ("torn_efbig", "torn_kill"):
            lf = {"kind": df["kind"], "n": df["n"]}
        elif df and df["kind"] == "kill_at_op":
            lf = {"kind": "kill_at_op", "k": df["k"], "root": self.root}
        pid = zygote.launch(
            argv, cwd, self.launch_env(env), os.devnull if lf else drv_log, fault=lf,
            trace=None if lf else trace_path, proc="driver", readdir_seed=readdir_seed,
        )
        pidfd = os.pidfd_open(pid)
        killed = False
        try:
            while True:
                rl, _, _ = select.select([self.srv, pidfd], [], [], 600)
                if not rl:
                    os.kill(pid, signal.SIGKILL)
                    raise RuntimeError("driver stuck for 600 s")
                if self.srv in rl:
                    conn, _ = self.srv.accept()
                    req = json.loads(conn.makefile().readline())
                    a = req["argv"]
                    bdir = a[a.index("-C") + 1] if "-C" in a else "."
                    bdir = os.path.normpath(os.path.join(req["cwd"], bdir))
                    reads, writes = self.settle()
                    out["driver_writes"] = sorted(self.rel(p) for p in writes)
                    if "-t" in a:
                        # a ninja subtool, not a build
                        tool = a[a.index("-t") + 1] if a.index("-t") + 1 < len(a) else ""
                        rc = simninja.run_tool(self, bdir, tool, a)
                        out.setdefault("ninja_tools", []).append({"tool": tool, "rc": rc})
                        try:
                            conn.sendall(("%d\n" % rc).encode())
                        except OSError:
                            pass
                        conn.close()
                        continue
                    # positional arguments of the ninja command line are targets
                    targets, i_ = [], 1
                    while i_ < len(a):
                        if a[i_] in ("-C", "-j", "-k", "-l", "-f", "-d", "-w"):
                            i_ += 2
                        elif a[i_].startswith("-"):
                            i_ += 1
                        else:
                            targets.append(a[i_])
                            i_ += 1
                    sn = simninja.SimNinja(
                        self, bdir, op.get("sched"), op.get("faults"), env, step_log, targets=targets,
                        trace=trace_path, readdir_seed=readdir_seed,
                        kill_after=op.get("kill_after"), edits=op.get("edits"), shadow=self.shadow,
                    )
                    r = sn.run()
                    out["ninja"].append(
                        {
                            "bdir": self.rel(os.path.realpath(bdir)),
                            "rc": r.rc, "error": r.error, "steps": r.steps, "reasons": r.reasons,
                            "anomalies": r.anomalies, "killed": r.killed, "faults": r.resolved_faults,
                            "order_sig": r.order_sig, "n_edges": r.n_edges, "events": r.events,
                        }
                    )
                    if r.killed:
                        os.kill(pid, signal.SIGKILL)
                        killed = True
                        conn.close()
                    else:
                        try:
                            conn.sendall(("%d\n" % r.rc).encode())
                        except OSError:
                            pass
                        conn.close()
                    continue
                break
        finally:
            os.close(pidfd)
        st = zygote.wait(pid)
        self.settle()
        out["driver_status"] = list(st)
        out["rc"] = st[1] if st[0] == "exit" else 128 + st[1]
        out["killed"] = killed
        if lf:
            out["driver_fault_fired"] = out["rc"] != 0
        out["trace"] = read_trace(trace_path) if trace_path else []
        try:
            with open(drv_log, "r", errors="replace") as f:
                out["driver_tail"] = f.read()[-1500:]
        except OSError:
            out["driver_tail"] = ""
        return out

    def step_log_tail(self, k, n=3000):
        try:
            with open(os.path.join(self.side, "inv%d.steps.log" % k), "r", errors="replace") as f:
                return f.read()[-n:]
        except OSError:
            return ""


def read_trace(path):
    recs = []
    try:
        with open(path, "rb") as f:
            for line in f.read().split(b"\n"):
                if not line:
                    continue
                try:
                    recs.append(json.loads(line))
                except ValueError:
                    continue
    except FileNotFoundError:
        pass
    return recs


def probe_capabilities():
    """atime (relatime) read detection and RLIMIT_FSIZE tearing must work on the
    scratch filesystem; returns dict of booleans."""
    import resource
    import tempfile

    base = scratch_base()
    os.makedirs(base, exist_ok=True)
    d = tempfile.mkdtemp(prefix="probe-", dir=base)
    caps = {}
    try:
        p = os.path.join(d, "f")
        with open(p, "w") as f:
            f.write("x" * 1000)
        os.utime(p, ns=(T0, T0))
        with open(p) as f:
            f.read()
        caps["atime"] = os.stat(p).st_atime_ns != T0
        pid = os.fork()
        if pid == 0:
            try:
                resource.setrlimit(resource.RLIMIT_FSIZE, (100, 100))
                signal.signal(signal.SIGXFSZ, signal.SIG_DFL)
                fd = os.open(os.path.join(d, "g"), os.O_WRONLY | os.O_CREAT)
                os.write(fd, b"y" * 500)
                os.write(fd, b"y" * 500)
            finally:
                os._exit(0)
        _, st = os.waitpid(pid, 0)
        caps["rlimit_kill"] = os.WIFSIGNALED(st) and os.path.getsize(os.path.join(d, "g")) == 100
        caps["pidfd"] = hasattr(os, "pidfd_open")
    finally:
        shutil.rmtree(d, ignore_errors=True)
    return caps

"""Minimal inotify binding (ctypes): which paths under a directory tree were
created / written / moved / deleted while a step ran - including scratch files
that no longer exist when the step is over and that timestamp comparison cannot
see."""
import ctypes
import ctypes.util
import os
import struct

_libc = ctypes.CDLL(ctypes.util.find_library("c") or "libc.so.6", use_errno=True)
IN_MODIFY, IN_CLOSE_WRITE, IN_MOVED_FROM, IN_MOVED_TO, IN_CREATE, IN_DELETE = 0x2, 0x8, 0x40, 0x80, 0x100, 0x200
IN_ISDIR = 0x40000000
IN_NONBLOCK, IN_CLOEXEC = 0o4000, 0o2000000
MASK = IN_MODIFY | IN_CLOSE_WRITE | IN_MOVED_FROM | IN_MOVED_TO | IN_CREATE | IN_DELETE


class Watcher:
    def __init__(self, root):
        self.fd = _libc.inotify_init1(IN_NONBLOCK | IN_CLOEXEC)
        if self.fd < 0:
            raise OSError(ctypes.get_errno(), "inotify_init1")
        self.wd = {}
        for dp, dns, _ in os.walk(root):
            self._add(dp)

    def _add(self, d):
        wd = _libc.inotify_add_watch(self.fd, os.fsencode(d), MASK)
        if wd >= 0:
            self.wd[wd] = d

    def drain(self):
        """-> {path: ORed event mask} for non-directory entries"""
        out = {}
        while True:
            try:
                buf = os.read(self.fd, 65536)
            except BlockingIOError:
                break
            if not buf:
                break
            i = 0
            while i + 16 <= len(buf):
                wd, mask, _cookie, ln = struct.unpack_from("iIII", buf, i)
                name = buf[i + 16 : i + 16 + ln].split(b"\0", 1)[0]
                i += 16 + ln
                d = self.wd.get(wd)
                if d is None or not name:
                    continue
                p = os.path.join(d, os.fsdecode(name))
                if mask & IN_ISDIR:
                    if mask & (IN_CREATE | IN_MOVED_TO):
                        self._add(p)  # best effort: files created before the watch exists are missed
                    continue
                out[p] = out.get(p, 0) | mask
        return out

    def close(self):
        try:
            os.close(self.fd)
        except OSError:
            pass

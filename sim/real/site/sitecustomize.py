# Fault injection for `python -m ...` steps in REAL replays (stub validation only).
# Active only when NSIM_REAL_FAULTS is set; keyed by the exact original argv.
import os, sys

def _install():
    import json
    plan = json.loads(os.environ.get("NSIM_REAL_FAULTS") or "[]")
    if not plan:
        return
    argv = list(getattr(sys, "orig_argv", []))
    f = next((p for p in plan if p["argv"] == argv), None)
    if f is None:
        return
    if f["kind"] == "fail_before":
        os._exit(1)
    import atexit

    def at_exit():
        try:
            sys.stdout.flush(); sys.stderr.flush()
        except Exception:
            pass
        if f["kind"] == "fail_after":
            os._exit(1)
        try:
            size = os.path.getsize(f["out"])
        except OSError:
            size = -1
        if size > f["n"]:
            os.truncate(f["out"], f["n"])
            os._exit(1)

    atexit.register(at_exit)

if os.environ.get("NSIM_REAL_FAULTS"):
    _install()

"""Process launcher of the simulator.

The interpreter that imports this module is the *zygote* of a run: it imports the
heavy third-party packages once and never imports ``nanoemoji.*`` (the step
modules define colliding absl flags and keep per-process state).  Every simulated
process is a real ``fork()`` of the zygote that runs the real entry point of the
step and exits with a real status.  Exactly one simulated process runs at a time.
"""
import gc
import hashlib
import json
import os
import random
import resource
import runpy
import signal
import sys

_REAL_GETPID = os.getpid  # children may be given a simulated pid (os.getpid is replaced there); signals need the real one
REPO_SRC = os.environ.get("NANOEMOJI_SRC", "/repo/src")
SIM_DIR = os.path.dirname(os.path.abspath(__file__))
VENV_BIN = "/venv/bin"


def preload():
    """Import what the steps need from site-packages (not nanoemoji itself)."""
    import absl.app, absl.flags, absl.logging  # noqa
    import fontTools.ttLib, fontTools.feaLib.builder, fontTools.designspaceLib  # noqa
    import fontTools.ttLib.tables.otTables, fontTools.colorLib.builder  # noqa
    import fontTools.pens.ttGlyphPen, fontTools.pens.transformPen  # noqa
    import ufo2ft, ufoLib2  # noqa
    import picosvg.svg, picosvg.svg_reuse, picosvg.svg_transform  # noqa
    import lxml.etree, toml, regex, PIL.Image, pathops  # noqa
    import ninja.ninja_syntax  # noqa
    try:
        import zopfli.png  # noqa
    except Exception:
        pass
    for name in list(sys.modules):
        assert not name.startswith("nanoemoji"), name
    assert "picosvg.picosvg" not in sys.modules


# ---------------------------------------------------------------------------
# child-side observation wrappers (never change arguments or results)
# ---------------------------------------------------------------------------


def _safe(fn, *a):
    """observation must never break the observed step"""
    try:
        return fn(*a)
    except Exception as e:  # noqa
        return {"observer_error": "%s: %s" % (type(e).__name__, e)}


def _trace_writer(path, proc):
    def emit(rec):
        rec["proc"] = proc
        try:
            data = (json.dumps(rec, sort_keys=True) + "\n").encode()
            fd = os.open(path, os.O_WRONLY | os.O_CREAT | os.O_APPEND, 0o644)
            try:
                os.write(fd, data)
            finally:
                os.close(fd)
        except OSError:
            pass

    return emit


def _canon_cfg(c):
    d = c._asdict()
    d["transform"] = [float(v) for v in d["transform"]]
    d["axes"] = [[a.axisTag, a.name, a.default] for a in c.axes]
    d["masters"] = [
        {
            "name": m.name,
            "style_name": m.style_name,
            "output_ufo": m.output_ufo,
            "position": [[p.axisTag, p.position] for p in m.position],
            "sources": [str(s) for s in m.sources],
        }
        for m in c.masters
    ]
    d["source_names"] = list(c.source_names)
    return d


def _canon_gm(g):
    return {
        "svg": None if g.svg_file is None else str(g.svg_file),
        "png": None if g.bitmap_file is None else str(g.bitmap_file),
        "cps": list(g.codepoints),
        "name": g.glyph_name,
    }


def _canon_parts(p):
    sets = []
    for n, s in p.shape_sets.items():
        sets.append([n, sorted(s, key=repr), p._donor_cache.get(n, "")])  # key=repr: never raise on odd members
    sets.sort(key=lambda t: repr(t[0]))
    blob = json.dumps(
        {
            "version": list(p.version),
            "view_box": [float(v) for v in p.view_box],
            "tol": p.reuse_tolerance,
            "sets": sets,
        },
        sort_keys=True,
    )
    return {
        "version": list(p.version),
        "view_box": [float(v) for v in p.view_box],
        "tol": p.reuse_tolerance,
        "n_sets": len(sets),
        "n_shapes": sum(len(s[1]) for s in sets),
        "sha": hashlib.sha256(blob.encode()).hexdigest(),
    }


def _wrap_config(emit):
    def apply(mod):
        o_write, o_load = mod.write, mod.load

        def write(dest, config):
            r = o_write(dest, config)
            emit({"k": "config.write", "dest": os.path.abspath(dest), "cfg": _safe(_canon_cfg, config)})
            return r

        def load(config_file=None, additional_srcs=None):
            r = o_load(config_file, additional_srcs)
            emit(
                {
                    "k": "config.load",
                    "file": None if config_file is None else os.path.abspath(config_file),
                    "cfg": _safe(_canon_cfg, r),
                }
            )
            return r

        mod.write, mod.load = write, load

    return apply


def _wrap_glyphmap(emit):
    def apply(mod):
        cls = mod.GlyphMapping
        o_csv, o_parse = cls.csv_line, mod.parse_csv

        def csv_line(self):
            r = o_csv(self)
            emit({"k": "gm.csv_line", "gm": _safe(_canon_gm, self), "line": r})
            return r

        def parse_csv(filename):
            r = o_parse(filename)
            emit(
                {
                    "k": "gm.parse",
                    "file": os.path.abspath(filename),
                    "gms": [_safe(_canon_gm, g) for g in r],
                }
            )
            return r

        cls.csv_line = csv_line
        mod.parse_csv = parse_csv

    return apply


def _wrap_util(emit):
    def apply(mod):
        o_exp = mod.expand_ninja_response_files

        def expand_ninja_response_files(argv):
            r = o_exp(argv)
            emit({"k": "rsp.expand", "argv": list(argv), "result": list(r)})
            return r

        mod.expand_ninja_response_files = expand_ninja_response_files

    return apply


def _wrap_parts(emit):
    def apply(mod):
        cls = mod.ReusableParts
        o_to, o_load = cls.to_json, cls.loadjson.__func__

        def to_json(self):
            r = o_to(self)
            emit(
                {
                    "k": "parts.to_json",
                    "parts": _safe(_canon_parts, self),
                    "text_sha": hashlib.sha256((r + "\n").encode()).hexdigest(),
                }
            )
            return r

        def loadjson(klass, input_file):
            r = o_load(klass, input_file)
            emit(
                {
                    "k": "parts.load",
                    "file": os.path.abspath(input_file),
                    "parts": _safe(_canon_parts, r),
                }
            )
            return r

        cls.to_json = to_json
        cls.loadjson = classmethod(loadjson)

    return apply


def _wrap_glyph(emit):
    def apply(mod):
        o = mod.glyph_name

        def glyph_name(codepoints):
            r = o(codepoints)
            try:
                cps = [codepoints] if isinstance(codepoints, int) else list(codepoints)
            except TypeError:
                cps = None
            emit({"k": "glyph_name", "cps": cps, "name": r})
            return r

        mod.glyph_name = glyph_name

    return apply


def _install_import_hooks(emit):
    import importlib.abc

    wraps = {
        "nanoemoji.config": _wrap_config(emit),
        "nanoemoji.glyphmap": _wrap_glyphmap(emit),
        "nanoemoji.util": _wrap_util(emit),
        "nanoemoji.parts": _wrap_parts(emit),
        "nanoemoji.glyph": _wrap_glyph(emit),
    }

    class Hook(importlib.abc.MetaPathFinder):
        def find_spec(self, name, path, target=None):
            fn = wraps.get(name)
            if fn is None:
                return None
            spec = None
            for f in sys.meta_path:
                if f is self or not hasattr(f, "find_spec"):
                    continue
                spec = f.find_spec(name, path, target)
                if spec is not None:
                    break
            if spec is None or spec.loader is None:
                return None
            orig = spec.loader

            class L(importlib.abc.Loader):
                def create_module(self, spec):
                    return orig.create_module(spec)

                def exec_module(self, module):
                    orig.exec_module(module)
                    fn(module)

                def __getattr__(self, name):
                    return getattr(orig, name)

            spec.loader = L()
            return spec

    sys.meta_path.insert(0, Hook())


def _install_readdir_permutation(seed):
    """os.scandir / os.listdir return a seeded permutation (glob order is a
    file-system accident the build must not depend on)."""
    o_scandir, o_listdir = os.scandir, os.listdir

    def perm(items, where, key):
        items = sorted(items, key=key)
        h = hashlib.sha256(("%s|%s" % (seed, where)).encode()).digest()
        random.Random(int.from_bytes(h[:8], "big")).shuffle(items)
        return items

    class ScandirIt:
        def __init__(self, path):
            with o_scandir(path) as it:
                ents = list(it)
            p = "." if path is None else os.fspath(path)
            if isinstance(p, bytes):
                p = os.fsdecode(p)
            self._ents = iter(perm(ents, os.path.abspath(p), lambda e: os.fsdecode(e.name)))

        def __iter__(self):
            return self

        def __next__(self):
            return next(self._ents)

        def close(self):
            self._ents = iter(())

        def __enter__(self):
            return self

        def __exit__(self, *a):
            self.close()

    def scandir(path="."):
        if isinstance(path, int):
            return o_scandir(path)
        return ScandirIt(path)

    def listdir(path="."):
        r = o_listdir(path)
        if isinstance(path, int):
            return r
        p = os.fspath(path)
        if isinstance(p, bytes):
            p = os.fsdecode(p)
        return perm(r, os.path.abspath(p), lambda n: os.fsdecode(n))

    os.scandir, os.listdir = scandir, listdir


# ---------------------------------------------------------------------------


def _install_kill_at_op(k, root):
    """die (SIGKILL) just BEFORE the k-th file-system mutation under `root`: an open for writing, a rename/replace,
    a remove.  Complements RLIMIT_FSIZE (which tears a write in the middle) with crash points BETWEEN writes."""
    state = {"n": 0}
    root = os.path.realpath(root)

    def under(p):
        try:
            p = os.path.realpath(os.fspath(p))
        except Exception:
            return False
        return p == root or p.startswith(root + os.sep)

    def hook(event, args):
        hit = False
        if event == "open":
            path, mode, flags = args
            writing = (isinstance(mode, str) and any(c in mode for c in "wax+")) or (
                isinstance(flags, int) and flags & (os.O_WRONLY | os.O_RDWR | os.O_CREAT | os.O_TRUNC | os.O_APPEND))
            hit = writing and isinstance(path, (str, bytes, os.PathLike)) and under(path)
        elif event in ("os.rename", "os.remove", "os.rmdir", "shutil.move", "os.truncate"):
            hit = any(isinstance(a, (str, bytes, os.PathLike)) and under(a) for a in args[:2])
        if hit:
            if state["n"] == k:
                os.kill(_REAL_GETPID(), signal.SIGKILL)
            state["n"] += 1

    sys.addaudithook(hook)


def _child_exit(code):
    try:
        import atexit

        atexit._run_exitfuncs()
    except BaseException:
        pass
    try:
        gc.collect()
    except BaseException:
        pass
    for s in (sys.stdout, sys.stderr):
        try:
            s.flush()
        except BaseException:
            pass
    os._exit(code)


def is_python(prog):
    b = os.path.basename(prog)
    return b.startswith("python")


def launch(argv, cwd, env, out_path, fault=None, trace=None, proc="", readdir_seed=None):
    """fork a simulated process; returns pid.  ``fault`` is None or
    {"kind": "torn_efbig"|"torn_kill", "n": bytes}."""
    sys.stdout.flush()
    sys.stderr.flush()
    pid = os.fork()
    if pid != 0:
        return pid
    code = 70
    try:
        try:
            os.chdir(cwd)
            os.environ.clear()
            os.environ.update(env)
            if env.get("NSIM_NOW_NS"):
                # wall-clock reads of the simulated process see the SIMULATED time (file stamps come from the same clock);
                # every read advances it by a millisecond, so the values do not depend on how fast this machine is
                import time as _tm

                _clk = {"ns": int(env["NSIM_NOW_NS"])}

                def _time_ns():
                    _clk["ns"] += 1_000_000
                    return _clk["ns"]

                _tm.time_ns = _time_ns
                _tm.time = lambda: _time_ns() / 1e9
            if env.get("NSIM_FAKE_PID"):
                _pid = int(env["NSIM_FAKE_PID"])
                os.getpid = lambda: _pid  # what the code under test sees; the kernel's idea of the pid is untouched
            if env.get("NSIM_UMASK"):
                os.umask(int(env["NSIM_UMASK"], 8))
            if env.get("NSIM_CPU_COUNT"):
                # the machine's size is not an input of the build either
                _n = int(env["NSIM_CPU_COUNT"])
                os.cpu_count = lambda: _n
                if hasattr(os, "sched_getaffinity"):
                    os.sched_getaffinity = lambda pid=0: set(range(_n))
                try:
                    import multiprocessing as _mp

                    _mp.cpu_count = lambda: _n
                except Exception:
                    pass
            try:
                import time as _t

                _t.tzset()  # the zygote's idea of the time zone must not leak into a child that was given another TZ
            except Exception:
                pass
            fd = os.open(out_path, os.O_WRONLY | os.O_CREAT | os.O_APPEND, 0o644)
            os.dup2(fd, 1)
            os.dup2(fd, 2)
            os.close(fd)
            nul = os.open(os.devnull, os.O_RDONLY)
            os.dup2(nul, 0)
            os.close(nul)
            sys.stdout = os.fdopen(1, "w", buffering=1, closefd=False)
            sys.stderr = os.fdopen(2, "w", buffering=1, closefd=False)
            if fault is not None and fault["kind"] == "kill_at_op":
                _install_kill_at_op(int(fault["k"]), fault["root"])
            elif fault is not None:
                n = int(fault["n"])
                resource.setrlimit(resource.RLIMIT_FSIZE, (n, n))
                if fault["kind"] == "torn_kill":
                    signal.signal(signal.SIGXFSZ, signal.SIG_DFL)
                else:
                    signal.signal(signal.SIGXFSZ, signal.SIG_IGN)
            prog = os.path.basename(argv[0])
            pymod = is_python(argv[0]) and len(argv) > 2 and argv[1] == "-m"
            if pymod or prog in ("picosvg", "nanoemoji"):
                sys.path.insert(0, REPO_SRC)
                for extra in reversed([x for x in env.get("PYTHONPATH", "").split(":") if x]):
                    sys.path.insert(1, extra)
                if readdir_seed is not None:
                    _install_readdir_permutation(readdir_seed)
                if trace:
                    _install_import_hooks(_trace_writer(trace, proc))
                if pymod:
                    sys.argv = [argv[2]] + list(argv[3:])
                    runpy.run_module(argv[2], run_name="__main__", alter_sys=True)
                elif prog == "picosvg":
                    sys.argv = list(argv)
                    from picosvg.picosvg import main

                    main()
                else:
                    sys.argv = list(argv)
                    from nanoemoji.nanoemoji import main

                    main()
                code = 0
            else:
                os.execvp(argv[0], argv)
        except SystemExit as e:
            c = e.code
            if c is None:
                code = 0
            elif isinstance(c, int):
                code = c & 0xFF
            else:
                try:
                    print(c, file=sys.stderr)
                except BaseException:
                    pass
                code = 1
        except BaseException:
            try:
                import traceback

                traceback.print_exc()
            except BaseException:
                pass
            code = 1
    finally:
        _child_exit(code)


def wait(pid):
    """returns ('exit', code) or ('signal', signo)"""
    _, st = os.waitpid(pid, 0)
    if os.WIFSIGNALED(st):
        return ("signal", os.WTERMSIG(st))
    return ("exit", os.WEXITSTATUS(st))

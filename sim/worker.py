"""Worker interpreter: the zygote of every simulated process of the jobs it is
given.  Started by the orchestrator with PYTHONHASHSEED set to the *simulated*
hash seed.  usage: python -m sim.worker <jobs.jsonl> <results.jsonl>"""
import faulthandler
import json
import os
import sys
import time
import traceback


def main():
    jobs_path, out_path = sys.argv[1], sys.argv[2]
    faulthandler.enable()
    from . import zygote, job as J

    zygote.preload()
    with open(jobs_path) as f:
        jobs = [json.loads(l) for l in f if l.strip()]
    with open(out_path, "a") as out:
        for jb in jobs:
            faulthandler.dump_traceback_later(int(jb.get("wall_limit", 600)), exit=True)
            t = time.time()
            try:
                r = J.run_job(jb)
                r["ok"] = True
            except BaseException as e:  # harness problem, reported as such
                if isinstance(e, (KeyboardInterrupt, SystemExit)):
                    raise
                r = {"id": jb.get("id"), "ok": False, "error": traceback.format_exc()}
            r["wall_s"] = round(time.time() - t, 3)
            r["hashseed"] = os.environ.get("PYTHONHASHSEED")
            faulthandler.cancel_dump_traceback_later()
            out.write(json.dumps(r) + "\n")
            out.flush()


if __name__ == "__main__":
    main()

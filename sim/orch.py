"""Orchestrator shared by the checks: fans cases out to worker interpreters (one
per simulated hash seed and shard, at most NPROC at a time, plain subprocesses
with a wall limit), judges the results, shrinks and writes replay files,
matches known findings, writes evidence."""
import hashlib
import json
import os
import shutil
import subprocess
import sys
import time

VERIF = os.path.dirname(os.path.dirname(os.path.abspath(__file__)))
PY = "/venv/bin/python3"  # the interpreter path the console scripts use: sys.executable ends up in build.ninja
NPROC = int(os.environ.get("VERIF_NPROC", "16"))


class HarnessError(Exception):
    pass


def H(*parts):
    return int.from_bytes(hashlib.sha256("|".join(str(p) for p in parts).encode()).digest()[:8], "big")


def _scratch():
    from . import world

    d = os.path.join(world.scratch_base(), "orch-%d" % os.getpid())
    os.makedirs(d, exist_ok=True)
    return d


def run_jobs(jobs, nproc=None, per_job_wall=420, tag="b"):
    """jobs: list of job dicts, each with 'id', 'root_id' and 'hashseed'.
    Returns {id: result}.  Raises HarnessError if a worker dies or times out."""
    nproc = nproc or NPROC
    if not jobs:
        return {}
    d = _scratch()
    by_seed = {}
    for jb in jobs:
        by_seed.setdefault(int(jb.get("hashseed", 0)), []).append(jb)
    # shards: split each hash-seed group so that there are ~3*nproc shards overall
    target = max(1, (len(jobs) + 3 * nproc - 1) // (3 * nproc))
    shards = []
    for hs in sorted(by_seed):
        g = by_seed[hs]
        for i in range(0, len(g), target):
            shards.append((hs, g[i : i + target]))
    # longest shards first
    shards.sort(key=lambda s: -len(s[1]))
    pending = list(enumerate(shards))
    running = []
    results = {}
    errors = []

    def start(idx, hs, g):
        jp = os.path.join(d, "%s-%d.jobs" % (tag, idx))
        rp = os.path.join(d, "%s-%d.results" % (tag, idx))
        with open(jp, "w") as f:
            for jb in g:
                jb = dict(jb)
                jb.setdefault("wall_limit", per_job_wall)
                f.write(json.dumps(jb) + "\n")
        if os.path.exists(rp):
            os.unlink(rp)
        env = {
            "PATH": "/venv/bin:/usr/bin:/bin",
            "PYTHONHASHSEED": str(hs),
            "LANG": "C.UTF-8",
            "LC_ALL": "C.UTF-8",
            "HOME": "/nonexistent",
            "PYTHONDONTWRITEBYTECODE": "1",
            "SOURCE_DATE_EPOCH": "1600000000",
        }
        for k in ("NANOEMOJI_SRC", "TMPDIR"):
            if k in os.environ:
                env[k] = os.environ[k]
        lp = os.path.join(d, "%s-%d.log" % (tag, idx))
        p = subprocess.Popen(
            [PY, "-m", "sim.worker", jp, rp], cwd=VERIF, env=env,
            stdout=open(lp, "w"), stderr=subprocess.STDOUT, stdin=subprocess.DEVNULL,
        )
        return {"p": p, "rp": rp, "lp": lp, "jobs": g, "t0": time.time(), "limit": 90 + per_job_wall * len(g)}

    while pending or running:
        while pending and len(running) < nproc:
            idx, (hs, g) = pending.pop(0)
            running.append(start(idx, hs, g))
        time.sleep(0.05)
        for r in list(running):
            rc = r["p"].poll()
            if rc is None:
                if time.time() - r["t0"] > r["limit"]:
                    r["p"].kill()
                    r["p"].wait()
                    errors.append("worker timed out after %d s (%d jobs)" % (r["limit"], len(r["jobs"])))
                    running.remove(r)
                continue
            running.remove(r)
            got = 0
            if os.path.exists(r["rp"]):
                with open(r["rp"]) as f:
                    for line in f:
                        try:
                            x = json.loads(line)
                        except ValueError:
                            continue
                        results[x["id"]] = x
                        got += 1
            if rc != 0 or got != len(r["jobs"]):
                tail = ""
                try:
                    tail = open(r["lp"]).read()[-2000:]
                except OSError:
                    pass
                errors.append("worker exit %s with %d/%d results\n%s" % (rc, got, len(r["jobs"]), tail))
    for jb in jobs:
        x = results.get(jb["id"])
        if x is not None and not x.get("ok"):
            errors.append("job %s raised in the harness:\n%s" % (jb["id"], x.get("error")))
    if errors:
        raise HarnessError("\n".join(errors[:5]))
    return results


def cleanup():
    from . import world

    shutil.rmtree(os.path.join(world.scratch_base(), "orch-%d" % os.getpid()), ignore_errors=True)


# ---------------------------------------------------------------------------
# cases
# ---------------------------------------------------------------------------
# A case is {"id", "jobs": [job...], "meta": {...}}.  judge(case, results) returns
# a list of findings: {"class": str, "detail": {...}}; an empty list = held.


def run_cases(cases, **kw):
    jobs = []
    for c in cases:
        for jb in c["jobs"]:
            jobs.append(jb)
    res = run_jobs(jobs, **kw)
    return {c["id"]: [res[jb["id"]] for jb in c["jobs"]] for c in cases}


def invokes(result):
    return [e["result"] for e in result["events"] if e["op"] == "invoke"]


def concretize(case, results):
    """rewrite deferred fault choices into explicit (edge, kind, n) so that the
    case no longer depends on which other edges happen to be dirty."""
    case = json.loads(json.dumps(case))
    for jb, res in zip(case["jobs"], results):
        invs = invokes(res)
        k = 0
        for op in jb["ops"]:
            if op["op"] != "invoke":
                continue
            r = invs[k] if k < len(invs) else None
            k += 1
            if r is None or not op.get("faults"):
                continue
            explicit = []
            for n in r.get("ninja", []):
                for f in n.get("faults", []):
                    if f.get("resolved"):
                        explicit.append(f["resolved"])
            if r.get("ninja"):
                op["faults"] = explicit
    return case


def _variants(case, protect):
    """single-step reductions of a case (smaller first)."""
    out = []
    for ji, jb in enumerate(case["jobs"]):
        ops = jb["ops"]
        # drop one op
        for i, op in enumerate(ops):
            if op.get("keep") or protect(jb, i, op):
                continue
            c = json.loads(json.dumps(case))
            del c["jobs"][ji]["ops"][i]
            out.append(("drop-op", c))
        for i, op in enumerate(ops):
            if op["op"] != "invoke":
                continue
            for fi in range(len(op.get("faults") or [])):
                c = json.loads(json.dumps(case))
                del c["jobs"][ji]["ops"][i]["faults"][fi]
                out.append(("drop-fault", c))
            for key in ("driver_fault", "kill_after", "edits"):
                if op.get(key):
                    c = json.loads(json.dumps(case))
                    c["jobs"][ji]["ops"][i][key] = None
                    out.append(("drop-" + key, c))
            s = op.get("sched") or {}
            if s.get("j", 1) != 1 or s.get("policy", "manifest") != "manifest" or s.get("exec_at", "finish") != "finish":
                c = json.loads(json.dumps(case))
                c["jobs"][ji]["ops"][i]["sched"] = {"j": 1, "policy": "manifest", "seed": 0, "exec_at": "finish"}
                out.append(("simple-sched", c))
            # drop one source argument everywhere: smaller graph
            for a in sorted({z for z in op["argv"] if z.endswith(".svg") and not z.startswith("-")}):
                if sum(1 for z in op["argv"] if z.endswith(".svg") and not z.startswith("-")) <= 1:
                    break
                c = json.loads(json.dumps(case))
                for jb2 in c["jobs"]:
                    for op2 in jb2["ops"]:
                        if op2["op"] == "invoke":
                            op2["argv"] = [z for z in op2["argv"] if z != a]
                out.append(("drop-src", c))
    return out


def shrink(case, judge, cls, budget_rounds=10, protect=None, log=None):
    """greedy parallel delta debugging: each round runs every single-step
    reduction, keeps the first that still shows the same violation class."""
    protect = protect or (lambda jb, i, op: op["op"] == "invoke" and op.get("final"))
    cur = case
    runs = 0
    for rnd in range(budget_rounds):
        vs = _variants(cur, protect)
        if not vs:
            break
        vs = vs[:48]
        cands = []
        for vi, (kind, c) in enumerate(vs):
            c["id"] = "%s.s%d.%d" % (case["id"], rnd, vi)
            for k, jb in enumerate(c["jobs"]):
                jb["id"] = "%s.j%d" % (c["id"], k)
                jb["root_id"] = "shrink/%s/%s" % (hashlib.sha1(case["id"].encode()).hexdigest()[:10], jb["id"].replace("/", "_"))
            cands.append((kind, c))
        try:
            res = run_cases([c for _, c in cands], tag="s%d" % rnd)
        except HarnessError as e:
            if log:
                log("shrink round %d: harness error, stopping shrink: %s" % (rnd, str(e)[:300]))
            break
        runs += len(cands)
        picked = None
        for kind, c in cands:
            try:
                fs = judge(c, res[c["id"]])
            except Exception:
                continue
            if any(f["class"] == cls and not f.get("known") for f in fs):
                picked = (kind, c)
                break
        if picked is None:
            break
        cur = picked[1]
        if log:
            log("shrink round %d: %s accepted (%d candidates)" % (rnd, picked[0], len(cands)))
    return cur, runs


def write_replay(prop, case, finding, results, seed):
    """the (shrunk) case keeps its ids and root_ids: byte-identical paths are
    part of what makes the replay exact (torn-write offsets depend on them)."""
    d = os.path.join(VERIF, "replays")
    os.makedirs(d, exist_ok=True)
    name = "%s-%s-%s.json" % (prop, seed, hashlib.sha1((case["id"] + "|" + finding["class"]).encode()).hexdigest()[:8])
    path = os.path.join(d, name)
    body = {
        "property": prop,
        "class": finding["class"],
        "detail": finding.get("detail"),
        "seed": seed,
        "case": case,
        "fingerprints": [r["fingerprint"] for r in results],
    }
    with open(path, "w") as f:
        json.dump(body, f, indent=1, sort_keys=True)
    return path


def load_known(prop):
    p = os.path.join(VERIF, "known_findings.json")
    try:
        with open(p) as f:
            data = json.load(f)
    except FileNotFoundError:
        return []
    return [k for k in data.get("findings", []) if k.get("property") == prop and k.get("status") == "known"]

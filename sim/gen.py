"""Seeded generators shared by the checks.  Every draw comes from a
random.Random derived from (seed, concern...) so that adding a draw to one
concern never shifts another."""
import json
import os
import random

from .orch import H

ALL_FORMATS = [
    "glyf", "glyf_colr_0", "glyf_colr_1", "cff_colr_0", "cff_colr_1", "cff2_colr_0", "cff2_colr_1",
    "picosvg", "picosvgz", "untouchedsvg", "untouchedsvgz", "cbdt", "sbix",
]
# one representative per family gets most of the weight
FAMILY_REPS = ["glyf_colr_1", "glyf_colr_0", "cff2_colr_1", "picosvg", "untouchedsvgz", "cbdt", "sbix", "glyf"]
BITMAP = ("cbdt", "sbix")
PICO = ("glyf", "glyf_colr_0", "glyf_colr_1", "cff_colr_0", "cff_colr_1", "cff2_colr_0", "cff2_colr_1", "picosvg", "picosvgz")
COLR = ("glyf_colr_0", "glyf_colr_1", "cff_colr_0", "cff_colr_1", "cff2_colr_0", "cff2_colr_1")

CORPUS_POOL = [
    "rect.svg", "rect2.svg", "one-o-clock.svg", "two-o-clock.svg", "radial_gradient_rect.svg",
    "linear_gradient_rect.svg", "group_opacity.svg", "group_opacity_reuse.svg", "reused_shape.svg",
    "reused_shape_2.svg", "reused_shape_with_gradient.svg", "gradient_opacity.svg",
    "gradient_non_square_viewbox.svg", "currentColor.svg", "currentColor_with_opacity.svg",
    "cpal_color_indices.svg", "circle.svg", "circle_10x.svg", "rect_10x.svg", "rect_1000.svg",
    "square_vbox_narrow.svg", "square_vbox_wide.svg", "square_vbox_square.svg",
    "transformed_components_overlap.svg", "transformed_gradient_reuse.svg", "flipped_reused_shape.svg",
    "involutory_matrix.svg", "rotated_bounds_1.svg", "rotated_bounds_2.svg", "linear_gradient_transform.svg",
    "linear_gradient_transform_2.svg", "linear_gradient_transform_3.svg", "radial_gradient_transform.svg",
    "radial_gradient_transform_2.svg", "radial_gradient_square.svg", "reuse_shape_varying_fill.svg",
    "emoji_u263a.svg", "emoji_u25fd.svg", "emoji_u42.svg", "emoji_u43.svg", "u0301.svg", "one_rect.svg",
    "narrow_rects/a.svg", "narrow_rects/b.svg", "narrow_rects/c.svg", "cbdt_u0023.svg", "cbdt_flag.svg",
    "colored_notdef.svg", "empty.svg",
]
SMALL_POOL = ["rect.svg", "rect2.svg", "one_rect.svg", "circle.svg", "emoji_u42.svg", "emoji_u43.svg",
              "narrow_rects/a.svg", "narrow_rects/b.svg", "linear_gradient_rect.svg", "reused_shape.svg"]


def rng(*concern):
    return random.Random(H(*concern))


def ext_for(fmt):
    return ".otf" if fmt.startswith("cff") else ".ttf"


def pick_format(r, reps_weight=0.8):
    if r.random() < reps_weight:
        return r.choice(FAMILY_REPS)
    return r.choice(ALL_FORMATS)


def content(r, small=False):
    u = r.random()
    if u < 0.75:
        return "corpus:" + r.choice(SMALL_POOL if small else CORPUS_POOL)
    kind = r.choice(["rects", "ellipses", "paths", "outside", "gradient", "shared", "shared", "shared"])
    spec = {"kind": kind, "n": r.randint(1, 4), "seed": r.randint(0, 999)}
    if kind == "shared":
        # the same shape several times with different fill AND opacity: reuse through <use> with two paint attributes
        spec["n"] = r.randint(2, 4)
        if r.random() < 0.6:
            spec["opacity"] = True
    if r.random() < 0.3:
        spec["viewbox"] = r.choice([[0, 0, 128, 128], [0, 0, 200, 100], [0, 0, 50, 120], [10, 10, 100, 100]])
    if kind in ("rects", "paths") and r.random() < 0.3:
        spec["rot"] = r.choice([15, 30, 45, 90])
    if r.random() < 0.2:
        spec["opacity"] = True
    return spec


_SINGLE = (
    list(range(0x41, 0x5B)) + list(range(0x61, 0x7B)) + [0x23, 0x2A] + list(range(0x30, 0x3A))
    + list(range(0x1F600, 0x1F650)) + [0x270D, 0x2764, 0x263A, 0x25FD, 0x1F469, 0x1F468, 0x1F9D1, 0x1F91D]
)
_MODS = [0x1F3FB, 0x1F3FC, 0x1F3FD, 0x1F3FE, 0x1F3FF, 0xFE0F, 0x200D]


# boundary scalars: every hex-leading digit incl. a-f, private use, plane ends, tags, controls-adjacent
_EDGE = [0x21, 0x7E, 0xA9, 0xE9, 0xE01, 0xE50A, 0xE000, 0xEFFF, 0xF8FF, 0xFFFD, 0x10000, 0x1F1E6, 0xB0000, 0xC1234, 0xD7FF,
         0xE0067, 0xE007F, 0xF0000, 0xFFFFD, 0x100000, 0x10FFFD, 0x10FFFF, 0xA0, 0xAD, 0xFEFF, 0x2028, 0x3000]


def codepoints(r, max_len=4, edge=0.0):
    u = r.random()
    if u < edge:
        first = r.choice(_EDGE) if r.random() < 0.7 else r.randint(0x21, 0x10FFFF)
        if 0xD800 <= first <= 0xDFFF:
            first = 0xE000
        if r.random() < 0.5:
            return (first,)
        return (first,) + tuple(c for c in (r.choice(_MODS + _EDGE) for _ in range(r.randint(1, max_len - 1))) if not (0xD800 <= c <= 0xDFFF))
    if u < 0.6:
        return (r.choice(_SINGLE),)
    n = r.randint(2, max_len)
    seq = [r.choice(_SINGLE)]
    for _ in range(n - 1):
        seq.append(r.choice(_MODS + _SINGLE) if r.random() < 0.7 else r.randint(0x21, 0x10FFFF))
    seq = [c for c in seq if not (0xD800 <= c <= 0xDFFF)]
    return tuple(seq)


def file_stem(r, cps, decorate=False):
    style = r.choice(["emoji_u", "emoji_u", "bare", "u", "dash"])
    fmt = "%04x"
    if decorate:
        fmt = r.choice(["%04x", "%04x", "%x", "%04X", "%06x"])  # padded, minimal, upper case, over-padded
    hexes = [fmt % c for c in cps]
    if style == "emoji_u":
        stem = "emoji_u" + "_".join(hexes)
    elif style == "bare":
        stem = "_".join(hexes)
    elif style == "u":
        stem = "u" + "_".join(hexes)
    else:
        stem = "-".join(hexes)
    if decorate:
        # a prefix must not contain a hex digit, a suffix must not continue the sequence
        pre = r.choice(["", "", "my ", "ŝtr, ", "'q' ", "zz\"q\" ", "x#y% ", "łuk: ", "(z) ", "[z] ", "z&z; ", "~z+z= ", "{z}z ", "<z>^ ", "z!z@ ", "z? ", " z ", "z\tz "])
        suf = r.choice(["", "", " (x)", ", z", " 'q'", ' "q"', " #%", " ü", ": z", " [1]", " [x-z]", "?", " &;", " +=@~", " {z}", " ^<>", "!", " ", " z "])
        if style == "emoji_u":
            pre = ""  # the emoji_u prefix is only recognised at the very start of the name
        stem = pre + stem + suf
    return stem


def source_set(r, n, decorate=False, dirs=("src",), small=False, max_len=4, edge=0.0):
    """n distinct codepoint sequences -> [(relpath, content_ref, cps)]"""
    out, seen_cps, seen_names = [], set(), set()
    guard = 0
    while len(out) < n and guard < 1000:
        guard += 1
        cps = codepoints(r, max_len, edge)
        if cps in seen_cps:
            continue
        stem = file_stem(r, cps, decorate)
        name = stem + ".svg"
        if name.lower() in seen_names or len(name.encode()) > 200:
            continue
        seen_cps.add(cps)
        seen_names.add(name.lower())
        d = r.choice(list(dirs))
        out.append((d + "/" + name, content(r, small), cps))
    return out


def toml_config(opts, srcs, masters=None, axes=None):
    """opts: dict of top-level FontConfig keys; srcs: list of strings (globs or paths)"""
    lines = []
    for k, v in opts.items():
        lines.append("%s = %s" % (k, toml_value(v)))
    if masters is None:
        lines += ["", "[axis.wght]", 'name = "Weight"', "default = 400", "",
                  "[master.regular]", 'style_name = "Regular"',
                  "srcs = [%s]" % ", ".join(toml_value(s) for s in srcs), "",
                  "[master.regular.position]", "wght = 400", ""]
    else:
        for tag, (name, default) in axes.items():
            lines += ["", "[axis.%s]" % tag, "name = %s" % toml_value(name), "default = %s" % default]
        for mname, m in masters.items():
            lines += ["", "[master.%s]" % mname, "style_name = %s" % toml_value(m["style_name"]),
                      "srcs = [%s]" % ", ".join(toml_value(s) for s in m["srcs"]), "",
                      "[master.%s.position]" % mname]
            for tag, pos in m["position"].items():
                lines.append("%s = %s" % (tag, pos))
        lines.append("")
    return "\n".join(lines)


def toml_value(v):
    if isinstance(v, bool):
        return "true" if v else "false"
    if isinstance(v, (int, float)):
        return repr(v)
    return json.dumps(str(v), ensure_ascii=False)


def flag_args(opts, r=None):
    """r: optional PRNG; with it the spelling of each flag is drawn too (--k v, --k=v, --k=true/false for booleans)"""
    out = []
    for k, v in opts.items():
        style = r.choice(["space", "space", "equals"]) if r is not None else "space"
        if isinstance(v, bool):
            if style == "equals":
                out.append("--%s=%s" % (k, "true" if v else "false"))
            else:
                out.append("--%s%s" % ("" if v else "no", k))
        elif style == "equals":
            out.append("--%s=%s" % (k, v))
        else:
            out += ["--" + k, str(v)]
    return out


# option perturbations used by histories and configuration pairs: name -> values
OPTION_VALUES = {
    "upem": [1024, 2048, 1000, 512],
    "width": [1275, 1000, 0, 2048],
    "ascender": [950, 880, 1024],
    "descender": [-250, -120, 0],
    "linegap": [0, 100],
    "version_major": [1, 2, 16],
    "version_minor": [0, 3, 28],
    "family": ["An Emoji Family", "Fam B", "Noto Übung"],
    "reuse_tolerance": [0.1, -1.0, 0.05, 0.2],
    "keep_glyph_names": [False, True],
    "clip_to_viewbox": [True, False],
    "clipbox_quantization": [1, 16, 50],
    "pretty_print": [False, True],
    "transform": ["translate(0, 0)", "matrix(1 0 0 1 20 -10)", "scale(0.5)", "translate(10, 20)"],
    "bitmap_resolution": [32, 16, 24, 48],
    "use_pngquant": [True, False],
    "use_zopflipng": [True, False],
    # the last value makes pngquant give up (exit 99, "quality too low"): the wrapper then has to fall back to the input
    "pngquant_flags": ["--speed 1 --skip-if-larger --quality 85-95", "--speed 10 --quality 40-60", "--speed 11 --posterize 2", "--speed 3 --quality 100-100"],
    "ignore_reuse_error": [True, False],
}


def sched(r, first_outputs=None):
    policy = r.choice(["uniform", "uniform", "dfs", "bfs", "manifest", "reverse"])
    return {
        "j": r.choice([1, 2, 3, 4, 8, 16, r.randint(1, 16)]),
        "policy": policy,
        "seed": r.randint(0, 1 << 30),
        "exec_at": r.choice(["finish", "finish", "start"]),
    }

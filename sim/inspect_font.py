"""Read the observables of a font with fontTools (used by the C20 oracles).
Runs in a forked child of the zygote so that nothing it loads stays behind."""
import json
import os


def _summary(path):
    from fontTools import ttLib

    f = ttLib.TTFont(path, lazy=False)
    out = {"tables": sorted(f.keys()), "sfntVersion": f.sfntVersion}
    name = f["name"]
    out["name"] = {}
    for rec in name.names:
        out["name"].setdefault(str(rec.nameID), rec.toUnicode())
    head = f["head"]
    out["upem"] = head.unitsPerEm
    out["fontRevision"] = head.fontRevision
    hhea = f["hhea"]
    out["hhea"] = [hhea.ascent, hhea.descent, hhea.lineGap]
    if "OS/2" in f:
        o = f["OS/2"]
        out["os2"] = [o.sTypoAscender, o.sTypoDescender, o.sTypoLineGap, o.fsSelection, o.usWinAscent, o.usWinDescent]
    go = f.getGlyphOrder()
    out["glyphOrder"] = go
    out["hmtx"] = {g: f["hmtx"][g][0] for g in go}
    out["post"] = f["post"].formatType
    cmap = f.getBestCmap() or {}
    out["cmap"] = {"%x" % k: v for k, v in sorted(cmap.items())}
    if "COLR" in f:
        colr = f["COLR"]
        out["colr_version"] = colr.version
        clips = {}
        if colr.version == 1 and getattr(colr.table, "ClipList", None):
            for g, box in colr.table.ClipList.clips.items():
                clips[g] = [box.xMin, box.yMin, box.xMax, box.yMax]
        out["clips"] = clips
        if colr.version == 1:
            recs = colr.table.BaseGlyphList.BaseGlyphPaintRecord if colr.table.BaseGlyphList else []
            out["colr_base_glyphs"] = [r.BaseGlyph for r in recs]
            # gradient geometry per base glyph: [paint format, coordinates...] in traversal order, plus whether any
            # transforming paint sits in the tree (then the coordinates are not in font space)
            grads = {}
            for rec in recs:
                found, transformed = [], [False]

                def visit(paint):
                    if paint.Format in (12, 13, 14, 15, 16, 17, 18, 19, 20, 21, 22, 23, 24, 25, 26, 27, 28, 29, 30, 31):
                        transformed[0] = True
                    if paint.Format in (4, 5):
                        found.append([paint.Format, paint.x0, paint.y0, paint.x1, paint.y1, paint.x2, paint.y2])
                    elif paint.Format in (6, 7):
                        found.append([paint.Format, paint.x0, paint.y0, paint.r0, paint.x1, paint.y1, paint.r1])
                    elif paint.Format in (8, 9):
                        found.append([paint.Format, paint.centerX, paint.centerY])

                try:
                    rec.Paint.traverse(colr.table, visit)
                except Exception:
                    continue
                if found:
                    grads[rec.BaseGlyph] = {"coords": found, "transformed": transformed[0]}
            out["colr_gradients"] = grads
        else:
            out["colr_base_glyphs"] = sorted(colr.ColorLayers.keys())
    def _png_size(data):
        if data and data[:8] == b"\x89PNG\r\n\x1a\n":
            import struct

            return list(struct.unpack(">II", data[16:24]))
        return None

    if "CBLC" in f:
        out["cblc_ppem"] = [[s.bitmapSizeTable.ppemX, s.bitmapSizeTable.ppemY] for s in f["CBLC"].strikes]
        px = {}
        for strike in f["CBDT"].strikeData:
            for g, bm in strike.items():
                px[g] = _png_size(getattr(bm, "imageData", None))
        out["bitmap_px"] = px
    if "sbix" in f:
        out["sbix_ppem"] = sorted(f["sbix"].strikes.keys())
        px = {}
        for strike in f["sbix"].strikes.values():
            for g, gl in strike.glyphs.items():
                if getattr(gl, "imageData", None):
                    px[g] = _png_size(gl.imageData)
        out["bitmap_px"] = px
    if "SVG " in f:
        out["svg_docs"] = len(f["SVG "].docList)
        out["svg_compressed"] = [bool(getattr(d, "compressed", False)) for d in f["SVG "].docList]
    if "GSUB" in f:
        ligs = []
        gsub = f["GSUB"].table
        feats = sorted({fr.FeatureTag for fr in gsub.FeatureList.FeatureRecord}) if gsub.FeatureList else []
        out["gsub_features"] = feats
        for lk in gsub.LookupList.Lookup if gsub.LookupList else []:
            for st in lk.SubTable:
                if hasattr(st, "ExtSubTable"):
                    st = st.ExtSubTable
                if hasattr(st, "ligatures"):
                    for first, ls in sorted(st.ligatures.items()):
                        for l in ls:
                            ligs.append([[first] + list(l.Component), l.LigGlyph])
        out["ligatures"] = sorted(ligs)
    if "glyf" in f:
        b = {}
        glyf = f["glyf"]
        for g in go:
            gl = glyf[g]
            if gl.numberOfContours:
                b[g] = [gl.xMin, gl.yMin, gl.xMax, gl.yMax]
        out["glyf_bounds"] = b
    if "fvar" in f:
        out["fvar"] = [[a.axisTag, a.minValue, a.defaultValue, a.maxValue] for a in f["fvar"].axes]
    return out


def inspect_font(path):
    r, w = os.pipe()
    pid = os.fork()
    if pid == 0:
        code = 0
        try:
            os.close(r)
            try:
                data = {"ok": True, "info": _summary(path)}
            except BaseException as e:  # noqa
                data = {"ok": False, "error": "%s: %s" % (type(e).__name__, e)}
            with os.fdopen(w, "w") as f:
                json.dump(data, f)
        except BaseException:
            code = 1
        finally:
            os._exit(code)
    os.close(w)
    with os.fdopen(r) as f:
        raw = f.read()
    os.waitpid(pid, 0)
    try:
        return json.loads(raw)
    except ValueError:
        return {"ok": False, "error": "inspector died"}

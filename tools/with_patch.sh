#!/bin/bash
# usage: tools/with_patch.sh <patch.diff> <command...>
# runs the command against a scratch copy of /repo/src with the patch applied
# (selected through NANOEMOJI_SRC); the copy is removed afterwards.
set -u
patch_file=$(readlink -f "$1"); shift
d=$(mktemp -d /dev/shm/mut-XXXXXX)
cp -r /repo/src "$d/src"
if ! (cd "$d" && patch -s -p1 < "$patch_file"); then echo "patch failed"; rm -rf "$d"; exit 3; fi
find "$d" -name __pycache__ -prune -exec rm -rf {} +
NANOEMOJI_SRC="$d/src" "$@"
rc=$?
rm -rf "$d"
exit $rc

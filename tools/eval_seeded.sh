#!/bin/bash
# usage: tools/eval_seeded.sh <seeded dir> [check ...]   default check = the one named by the dir prefix
cd /verif
d=$1; shift; id=$(basename $d); c=${id:0:3}
checks=("$@"); [ ${#checks[@]} -eq 0 ] && checks=($c)
for k in "${checks[@]}"; do
  out=$(tools/with_patch.sh $d/patch.diff /venv/bin/python -m checks.$k --tier ${TIER:-quick} --no-shrink --no-evidence 2>&1); rc=$?
  echo "$id vs $k: exit=$rc $(echo "$out" | grep -c '^violations:') classes | $(echo "$out" | grep '^violations:\|HARNESS' | head -4 | cut -c1-170 | tr '\n' '|')"
  rm -f replays/${k^^}-*.json
done

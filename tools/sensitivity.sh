#!/bin/bash
# usage: tools/sensitivity.sh [patch ...]   (default: every mutants/*.patch)
# runs each patch against the check named by its file-name prefix (cNN_...) on a scratch copy of /repo/src.
cd /verif
ps=("$@"); [ ${#ps[@]} -eq 0 ] && ps=(mutants/*.patch)
for p in "${ps[@]}"; do
  b=$(basename "$p" .patch); c=${b%%_*}
  out=$(tools/with_patch.sh "$p" /venv/bin/python -m checks.$c --tier quick --no-shrink --no-evidence 2>&1)
  rc=$?
  n=$(echo "$out" | grep -c "^violations:")
  echo "$b -> $c exit=$rc classes=$n $(echo "$out" | grep '^violations:' | head -3 | cut -c1-160 | tr '\n' '|')"
  rm -f replays/${c^^}-*.json
done

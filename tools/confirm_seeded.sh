#!/bin/bash
# usage: tools/confirm_seeded.sh <dir with patch.diff and demo.sh|demo.py>
# confirms in a scratch worktree of /repo: patch applies, pinned tests unchanged (235 pass),
# demo fails with the patch and passes without it.  Prints one JSON line.
d=$(readlink -f "$1"); id=$(basename "$d")
wt=/tmp/confirm_$id
git -C /repo worktree remove --force $wt >/dev/null 2>&1
git -C /repo worktree add -q --detach $wt HEAD || exit 3
demo=$(ls $d/demo.sh $d/demo.py 2>/dev/null | head -1)
run_demo() { if [[ "$demo" == *.py ]]; then (cd $wt && PYTHONPATH=$wt/src PATH=/venv/bin:$PATH SOURCE_DATE_EPOCH=1600000000 timeout 900 /venv/bin/python "$demo" >/tmp/confirm_$id.$1.log 2>&1); else (cd $wt && PYTHONPATH=$wt/src PATH=/venv/bin:$PATH SOURCE_DATE_EPOCH=1600000000 timeout 900 bash "$demo" >/tmp/confirm_$id.$1.log 2>&1); fi; echo $?; }
clean_rc=$(run_demo clean)
if ! git -C $wt apply "$d/patch.diff"; then echo "{\"id\":\"$id\",\"applies\":false}"; git -C /repo worktree remove --force $wt; exit 1; fi
tests=$(cd $wt && PYTHONPATH=$wt/src timeout 1200 /venv/bin/python -m pytest -q -p no:cacheprovider --timeout=900 --continue-on-collection-errors 2>&1 | tail -1)
patched_rc=$(run_demo patched)
echo "{\"id\":\"$id\",\"applies\":true,\"tests\":\"$tests\",\"demo_clean_rc\":$clean_rc,\"demo_patched_rc\":$patched_rc}"
git -C /repo worktree remove --force $wt

#!/usr/bin/env python3
"""collect confirmation + evaluation logs into seeded/<id>/meta.json and seeded/RESULTS.md
usage: tools/write_seeded_meta.py <confirm.log>... -- <eval.log>..."""
import json, os, re, sys, glob
args = sys.argv[1:]
i = args.index("--")
confirm, evals = {}, {}
for f in args[:i]:
    for line in open(f):
        line = line.strip()
        if line.startswith("{"):
            d = json.loads(line); confirm[d["id"]] = d
for f in args[i+1:]:
    for line in open(f):
        m = re.match(r"(\S+) vs (\S+): exit=(\d+) (\d+) classes \| (.*)", line)
        if m:
            evals.setdefault(m.group(1), {})[m.group(2)] = {"exit": int(m.group(3)), "violation_kinds": int(m.group(4)), "first": m.group(5)[:300]}
rows = []
for d in sorted(glob.glob("/verif/seeded/c???_?")):
    sid = os.path.basename(d)
    notes = open(os.path.join(d, "notes.md")).read() if os.path.exists(os.path.join(d, "notes.md")) else ""
    prop = "C" + sid[1:3]
    meta_path = os.path.join(d, "meta.json")
    old = json.load(open(meta_path)) if os.path.exists(meta_path) else {}
    c = confirm.get(sid) or old.get("confirmed") or {}
    ev = dict(old.get("checks_run") or {}); ev.update(evals.get(sid, {}))
    needs = ""
    m = re.search(r"(?is)(needs|manifest)[^\n]*\n(.{0,600})", notes)
    if m: needs = " ".join(m.group(0).split())[:500]
    meta = {"id": sid, "property": prop, "written_by": "independent sub-agent given only the property text and a scratch worktree",
            "what_it_needs_to_manifest": needs or "see notes.md",
            "confirmed": c, "confirmed_how": "tools/confirm_seeded.sh: scratch worktree of /repo, pinned test suite with the patch, demo with and without the patch",
            "checks_run": ev, "checks_run_how": "tools/eval_seeded.sh: check quick tier against a patched scratch copy of /repo/src (NANOEMOJI_SRC), /repo itself untouched",
            "detected_by": sorted(k for k, v in ev.items() if v["exit"] == 1)}
    json.dump(meta, open(meta_path, "w"), indent=1)
    rows.append((sid, prop, c.get("tests", "?")[:22], c.get("demo_clean_rc"), c.get("demo_patched_rc"), ", ".join("%s:%s" % (k, "caught" if v["exit"] == 1 else ("harness-error" if v["exit"] == 2 else "MISSED")) for k, v in sorted(ev.items()))))
with open("/verif/seeded/RESULTS.md", "w") as f:
    f.write("# Independent seeded changes and what the checks say about them\n\nEach directory holds `patch.diff`, the author's demonstration and `notes.md`, and `meta.json` (what I ran).\n"
            "`demo clean/patched` = exit status of the demonstration without / with the patch (0 / non-zero expected).\n\n| id | property | pinned tests with patch | demo clean | demo patched | checks (quick tier) |\n|---|---|---|---|---|---|\n")
    for r in rows:
        f.write("| %s | %s | %s | %s | %s | %s |\n" % r)
print(open("/verif/seeded/RESULTS.md").read())

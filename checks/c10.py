"""C10 - what the driver resolves is exactly what the build steps see.

The files <out>.toml, <out>.glyphmap, *.rsp, *.parts.json and parts-merged.json
are the messages between the driver process and the worker processes; the build
directory is the transport.  Observation wrappers inside the real processes
record what each side sent / received; the judge compares both ends."""
import hashlib
import json
import os
import re
import sys

sys.path.insert(0, os.path.dirname(os.path.dirname(os.path.abspath(__file__))))
from sim import gen, orch  # noqa: E402
from sim.orch import H  # noqa: E402

PROP = "C10"
LEVEL = "exploration"
BRIEF_KEYS = ("what", "field", "step")
RULE = (
    "case = one project built through the simulated CLI, optionally after an invocation whose driver was torn while "
    "writing <out>.toml / build.ninja. 'config' cases set 3-10 FontConfig fields (every field is in the pool, incl. "
    "transform floats, unicode/quoted strings, optional clipbox_quantization, three masters on one axis) to boundary "
    "values, each delivered by flag, file or both; 'names' cases use 2-6 sources whose file names carry spaces, commas, "
    "quotes, ':', '#', '%', non-ASCII letters, sequences of 1-14 codepoints (ZWJ, VS16, >63-character glyph names) and "
    "adversarial pairs. Monitors at both ends of every hand-off: driver-resolved FontConfig == expected(flag > file > "
    "default); FontConfig loaded by each worker == the one the driver wrote to that file; glyph mappings parsed by "
    "write_fea/write_font == the ones write_glyphmap emitted, and their codepoints == the sequence encoded in the file "
    "name; response-file expansion == the edge's $in list; parts reloaded == parts serialised; distinct sequences have "
    "distinct, feature-file-legal glyph names. distinct = (case kind, format, fields/delivery set or name decorations, "
    "number of hand-offs compared); non-trivial = at least one hand-off of each of the config, glyphmap and response "
    "file kinds was compared."
)
ASSUMPTIONS = [
    "observation wrappers (sim/zygote.py) record arguments and results without changing them",
    "file names exclude '$', newline and a leading '-' (ninja manifest / absl syntax, see DESIGN section 5)",
    "the value space is sampled, not enumerated",
]

GLYPH_NAME_RE = re.compile(r"^[A-Za-z_][A-Za-z0-9._]{0,62}$")

DEFAULTS = {
    "family": "An Emoji Family", "output_file": "AnEmojiFamily.ttf", "color_format": "glyf_colr_1", "upem": 1024, "width": 1275,
    "ascender": 950, "descender": -250, "linegap": 0, "transform": [1.0, 0.0, 0.0, 1.0, 0.0, 0.0], "version_major": 1,
    "version_minor": 0, "reuse_tolerance": 0.1, "ignore_reuse_error": True, "keep_glyph_names": False, "clip_to_viewbox": True,
    "clipbox_quantization": None, "pretty_print": False, "fea_file": "features.fea", "glyphmap_generator": "nanoemoji.write_glyphmap",
    "bitmap_resolution": 128, "use_zopflipng": True, "use_pngquant": True,
    "pngquant_flags": "--speed 1 --skip-if-larger --quality 85-95",
}
# field -> list of (value as given by the user, value expected after resolution)
BOUNDARY = {
    "family": [("Fam B", None), ("Noto Übung “quoted”", None), ("a,b 'c' \"d\"", None), ("x" * 70, None), ("日本語 emoji", None)],
    "upem": [(1024, None), (16, None), (1000, None), (2048, None), (16384, None)],
    "width": [(1275, None), (0, None), (1, None), (999, None), (4096, None)],
    "ascender": [(950, None), (0, None), (1, None), (880, None), (2000, None)],
    "descender": [(-250, None), (0, None), (-1, None), (-120, None), (-1000, None)],
    "linegap": [(0, None), (1, None), (250, None)],
    "transform": [("translate(10, 20)", [1, 0, 0, 1, 10, 20]), ("matrix(1 0 0 1 40 -30)", [1, 0, 0, 1, 40, -30]),
                  ("scale(0.5)", [0.5, 0, 0, 0.5, 0, 0]), ("matrix(0.123456789 0 0 0.987654321 1.5 -2.25)", [0.123456789, 0, 0, 0.987654321, 1.5, -2.25]),
                  ("translate(0.1, 0.30000000000000004)", [1, 0, 0, 1, 0.1, 0.30000000000000004])],
    "version_major": [(1, None), (0, None), (2, None), (255, None)],
    "version_minor": [(0, None), (1, None), (28, None), (280, None)],
    "reuse_tolerance": [(-1.0, None), (0.05, None), (0.1, None), (0.2, None), (0.125, None)],
    "ignore_reuse_error": [(True, None), (False, None)],
    "keep_glyph_names": [(True, None), (False, None)],
    "clip_to_viewbox": [(True, None), (False, None)],
    "clipbox_quantization": [(1, None), (7, None), (100, None)],
    "pretty_print": [(True, None), (False, None)],
    "bitmap_resolution": [(128, None), (8, None), (20, None), (33, None)],
    "use_zopflipng": [(True, None), (False, None)],
    "use_pngquant": [(True, None), (False, None)],
    "pngquant_flags": [("--speed 11", None), ("--speed 10 --quality 40-60", None), ("--speed 11 --posterize 2 --nofs", None)],
    "color_format": [(f, None) for f in gen.ALL_FORMATS],
}


def _exp(pair):
    return pair[0] if pair[1] is None else [float(x) for x in pair[1]]


def gen_config_case(seed, idx):
    r = gen.rng(seed, "c10", "cfg", idx)
    vf = r.random() < 0.15
    fmt = r.choice(["glyf_colr_1", "glyf_colr_0", "glyf"]) if vf else gen.pick_format(r, 0.6)
    pool_fields = sorted(k for k in BOUNDARY if k != "color_format")
    if fmt in gen.BITMAP:  # extreme metrics overflow the bitmap tables' 8-bit fields: a legitimate, loud failure
        pool_fields = [k for k in pool_fields if k not in ("upem", "width", "ascender", "descender", "bitmap_resolution")]
    fields = r.sample(pool_fields, r.randint(3, min(10, len(pool_fields))))
    file_o, flag_o, expected = {}, {}, {}
    for f in fields:
        pool = BOUNDARY[f]
        if f == "family" and fmt.startswith("cff"):
            pool = [p for p in pool if all(ord(ch) < 256 for ch in p[0])]  # CFF stores names as latin-1
        a, b = r.sample(pool, 2)
        mode = r.choice(["flag", "file", "both"])
        if mode == "flag":
            flag_o[f] = a[0]
            expected[f] = _exp(a)
        elif mode == "file":
            file_o[f] = a[0]
            expected[f] = _exp(a)
        else:
            flag_o[f] = a[0]
            file_o[f] = b[0]
            expected[f] = _exp(a)
    # keep the build cheap and valid whatever was drawn
    if fmt in gen.BITMAP:
        if "bitmap_resolution" not in expected:
            file_o["bitmap_resolution"] = 20
            expected["bitmap_resolution"] = 20
    asc = expected.get("ascender", 950)
    desc = expected.get("descender", -250)
    if asc - desc <= 0:
        file_o["ascender"], expected["ascender"] = 880, 880
        flag_o.pop("ascender", None)
    out_name = r.choice(["Font", "My Font", "fönt.v2", "a,b"]) + gen.ext_for(fmt)
    mode = r.choice(["flag", "file", "both"])
    for k, v in (("color_format", fmt), ("output_file", out_name)):
        if mode == "flag":
            flag_o[k] = v
        elif mode == "file":
            file_o[k] = v
        else:
            flag_o[k] = v
            file_o[k] = {"color_format": "glyf" if fmt != "glyf" else "picosvg", "output_file": "Other" + gen.ext_for(fmt)}[k]
        expected[k] = v
    ops = []
    if vf:
        names = ["emoji_u61.svg", "emoji_u1f600.svg"]
        for m, c in (("thin", "corpus:vf/thin61.svg"), ("reg", "corpus:vf/thin61.svg"), ("bold", "corpus:vf/bold61.svg")):
            for n in names:
                ops.append({"op": "write", "path": "%s/%s" % (m, n), "content": c})
        toml = gen.toml_config(
            file_o, None,
            masters={"thin": {"style_name": "Thin", "srcs": ["thin/*.svg"], "position": {"wght": 100}},
                     "reg": {"style_name": "Regular", "srcs": ["reg/*.svg"], "position": {"wght": 400}},
                     "bold": {"style_name": "Bold Ünï", "srcs": ["bold/*.svg"], "position": {"wght": 900.5}}},
            axes={"wght": ("Weight “w”", 400)})
        expected_masters = [["thin", "Thin", [["wght", 100]]], ["reg", "Regular", [["wght", 400]]], ["bold", "Bold Ünï", [["wght", 900.5]]]]
        expected_axes = [["wght", "Weight “w”", 400]]
        if r.random() < 0.5:
            # two axes, declared in NON-alphabetical tag order; every non-default master moves along one axis only
            ops = [op for op in ops if not op["path"].startswith("thin/")]
            for n in names:
                ops.append({"op": "write", "path": "narrow/%s" % n, "content": "corpus:vf/thin61.svg"})
            from collections import OrderedDict

            toml = gen.toml_config(
                file_o, None,
                masters=OrderedDict([("reg", {"style_name": "Regular", "srcs": ["reg/*.svg"], "position": OrderedDict([("wght", 400), ("wdth", 100)])}),
                                     ("bold", {"style_name": "Bold Ünï", "srcs": ["bold/*.svg"], "position": OrderedDict([("wght", 900.5), ("wdth", 100)])}),
                                     ("narrow", {"style_name": "Narrow", "srcs": ["narrow/*.svg"], "position": OrderedDict([("wdth", 62.5), ("wght", 400)])})]),
                axes=OrderedDict([("wght", ("Weight “w”", 400)), ("wdth", ("Width", 100))]))
            # positions are stored sorted by tag (AxisPosition tuples); axes keep their declaration order
            expected_masters = [["reg", "Regular", [["wdth", 100], ["wght", 400]]], ["bold", "Bold Ünï", [["wdth", 100], ["wght", 900.5]]],
                                ["narrow", "Narrow", [["wdth", 62.5], ["wght", 400]]]]
            expected_axes = [["wght", "Weight “w”", 400], ["wdth", "Width", 100]]
    else:
        srcs = {"src/emoji_u41.svg": "corpus:rect.svg", "src/emoji_u1f600_200d_1f601.svg": "corpus:reused_shape.svg"}
        for p, c in sorted(srcs.items()):
            ops.append({"op": "write", "path": p, "content": c})
        toml = gen.toml_config(file_o, ["src/*.svg"])
        expected_masters = [["regular", "Regular", [["wght", 400]]]]
        expected_axes = [["wght", "Weight", 400]]
    ops.append({"op": "write", "path": "config.toml", "content": "text:" + toml})
    argv = gen.flag_args(flag_o, r) + ["config.toml"]
    if r.random() < 0.3:
        argv = ["config.toml"] + argv[:-1]  # flags after the positional argument
    rs = gen.rng(seed, "c10", "cfg", idx, "sched")
    if r.random() < 0.25:
        ops.append({"op": "invoke", "cwd": ".", "argv": argv, "build_dir": "build", "label": "torn", "sched": gen.sched(rs),
                    "driver_fault": {"kind": r.choice(["torn_efbig", "torn_kill"]), "n": int(2 ** r.uniform(0, 13))}})
    expected_by_label = {}
    if r.random() < 0.35 and flag_o:
        # an earlier invocation on the same build directory whose FLAGS carried other values: every message of
        # the later invocation must be the later one's, not a leftover
        prev_flags, prev_exp = dict(flag_o), dict(expected)
        TOML_ONLY = {"family", "upem", "width", "linegap", "version_major", "version_minor", "keep_glyph_names", "clipbox_quantization", "pretty_print", "transform", "ignore_reuse_error"}
        keep_manifest = bool(set(flag_o) & TOML_ONLY) and r.random() < 0.5  # change only what the manifest does not depend on
        for f in sorted(flag_o):
            if keep_manifest and f not in TOML_ONLY:
                continue
            if f in ("color_format", "output_file") or f not in BOUNDARY:
                continue
            pool = [p_ for p_ in BOUNDARY[f] if p_[0] != flag_o[f]]
            if f == "family" and fmt.startswith("cff"):
                pool = [p_ for p_ in pool if all(ord(ch) < 256 for ch in p_[0])]
            if fmt in gen.BITMAP and f in ("upem", "width", "ascender", "descender", "bitmap_resolution"):
                continue
            if pool:
                pv = r.choice(pool)
                prev_flags[f], prev_exp[f] = pv[0], _exp(pv)
        if prev_exp.get("ascender", 950) - prev_exp.get("descender", -250) > 0:
            ops.append({"op": "invoke", "cwd": ".", "argv": gen.flag_args(prev_flags) + ["config.toml"], "build_dir": "build", "label": "prev", "sched": gen.sched(rs)})
            expected_by_label["prev"] = prev_exp
            toml_only = {"family", "upem", "width", "linegap", "version_major", "version_minor", "keep_glyph_names", "clipbox_quantization", "pretty_print", "transform", "ignore_reuse_error"}
            changed = {f for f in flag_o if prev_flags.get(f) != flag_o.get(f)}
            if changed and changed <= toml_only and (keep_manifest or r.random() < 0.5):
                # nothing the manifest depends on changed: the user may keep the old build.ninja; the messages must still be new
                argv = argv + ["--nogen_ninja"]
    ops.append({"op": "invoke", "cwd": ".", "argv": argv, "build_dir": "build", "label": "build", "sched": gen.sched(rs), "final": True})
    cid = "c10-%d-c%d" % (seed, idx)
    job = {"id": cid + ".j0", "root_id": "c10/%d/c%d" % (seed, idx), "hashseed": H(seed, "c10c", idx) % 4294967296,
           "clock_seed": idx, "readdir_seed": H(seed, "c10c", idx, "rd") % (1 << 31), "keep_trace": True, "ops": ops}
    return {"id": cid, "jobs": [job], "meta": {"kind": "config", "fmt": fmt, "vf": vf, "expected": expected, "flag": sorted(flag_o),
                                               "file": sorted(file_o), "user_config": "config.toml", "masters": expected_masters, "axes": expected_axes,
                                               "stems": None, "expect_build": True, "expected_by_label": expected_by_label}}


def long_sequence(r, n):
    pool = list(range(0x1F600, 0x1F650)) + [0x200D, 0xFE0F, 0x1F3FB, 0x1F3FF, 0x10FFFF, 0x21, 0x7E, 0xE0067, 0x1F9D1]
    return tuple(r.choice(pool) for _ in range(n))


CUSTOM_GLYPHMAP = '''
"""glyph-map generator used by the C10 workload: every second glyph gets no codepoints, names are its own"""
from absl import app
from absl import flags
from nanoemoji.glyphmap import GlyphMapping
from nanoemoji import codepoints
from nanoemoji import util
from pathlib import Path

FLAGS = flags.FLAGS
flags.DEFINE_string("output_file", "-", "Output filename")


def main(argv):
    input_files = util.expand_ninja_response_files(argv[1:])
    by_stem = {}
    for f in input_files:
        p = Path(f)
        by_stem.setdefault(p.stem, [None, None])[0 if p.suffix == ".svg" else 1] = p
    with util.file_printer(FLAGS.output_file) as print:
        for idx, (stem, files) in enumerate(by_stem.items()):
            cps = () if idx % 2 == 1 else tuple(codepoints.from_filename(stem))
            print(GlyphMapping(files[0], files[1], cps, "custom_name_%d" % idx).csv_line())


if __name__ == "__main__":
    app.run(main)
'''


def gen_names_case(seed, idx):
    r = gen.rng(seed, "c10", "names", idx)
    fmt = gen.pick_format(r, 0.7)
    small = fmt in gen.BITMAP
    n = r.randint(2, 6)
    items = gen.source_set(gen.rng(seed, "c10", "names", idx, "set"), n, decorate=True, dirs=r.choice([("src",), ("s p a c e",), ("src", "dé pôt/x,y")]), small=True, edge=0.35)
    cps_seen = {c for _, _, c in items}
    if r.random() < 0.5:  # a long sequence (glyph name > 63 characters -> hashed name)
        cps = long_sequence(r, r.randint(9, 14))
        if cps not in cps_seen:
            items.append(("src/" + gen.file_stem(r, cps, True) + ".svg", gen.content(r, True), cps))
            cps_seen.add(cps)
    adversarial = r.random() < 0.12
    if adversarial:
        x = r.choice([0x1F600, 0x2764, 0x31])
        for cps in ((x,), (0x67, x)):
            if cps not in cps_seen:
                items.append(("src/" + gen.file_stem(r, cps, False) + ".svg", gen.content(r, True), cps))
                cps_seen.add(cps)
    ops = [{"op": "write", "path": p, "content": c} for p, c, _ in items]
    if len(items) > 1 and r.random() < 0.25:
        # one source is a symbolic link whose own name carries the codepoints; the target is called something else
        p0, c0, _cps0 = items[0]
        ops[0] = {"op": "write", "path": "real files/target_%d.svg" % idx, "content": c0}
        ops.insert(1, {"op": "symlink", "path": p0, "target": os.path.relpath("/real files/target_%d.svg" % idx, os.path.join("/", os.path.dirname(p0)))})
    opts = {"color_format": fmt, "output_file": "Font" + gen.ext_for(fmt)}
    if small:
        opts["bitmap_resolution"] = 20
    if r.random() < 0.5:
        opts["keep_glyph_names"] = True
    paths = [p for p, _, _ in items]
    delivery = r.choice(["flags", "toml-list", "toml-glob"])
    if delivery == "flags":
        r.shuffle(paths)
        argv = gen.flag_args(opts) + paths
        user_config = None
    else:
        if delivery == "toml-glob":
            srcs = sorted({os.path.dirname(p) + "/*.svg" for p in paths})
        else:
            srcs = paths
        ops.append({"op": "write", "path": "config.toml", "content": "text:" + gen.toml_config(opts, srcs)})
        argv = ["config.toml"]
        user_config = "config.toml"
    rs = gen.rng(seed, "c10", "names", idx, "sched")
    custom_gm = (not adversarial) and r.random() < 0.12
    env = None
    if custom_gm:
        ops.append({"op": "write", "path": "$SIDE/gm/cpless_glyphmap.py", "content": "text:" + CUSTOM_GLYPHMAP})
        argv = ["--glyphmap_generator", "cpless_glyphmap"] + argv
        env = {"PYTHONPATH": "$SIDE/gm"}
    if delivery == "flags" and not custom_gm and r.random() < 0.35:
        # an earlier invocation on the same build directory named one more source: its messages must not survive
        extra_cps = (0x1F9FF,)
        if extra_cps not in cps_seen:
            ops.append({"op": "write", "path": "src/emoji_u1f9ff.svg", "content": gen.content(r, True)})
            ops.append({"op": "invoke", "cwd": ".", "argv": argv + ["src/emoji_u1f9ff.svg"], "build_dir": "build", "label": "prev", "sched": gen.sched(rs)})
    inv = {"op": "invoke", "cwd": ".", "argv": argv, "build_dir": "build", "label": "build", "sched": gen.sched(rs), "final": True}
    if env:
        inv["env"] = env
    ops.append(inv)
    cid = "c10-%d-n%d" % (seed, idx)
    job = {"id": cid + ".j0", "root_id": "c10/%d/n%d" % (seed, idx), "hashseed": H(seed, "c10n", idx) % 4294967296,
           "clock_seed": idx, "readdir_seed": H(seed, "c10n", idx, "rd") % (1 << 31), "keep_trace": True, "ops": ops}
    stems = {os.path.basename(p)[:-4]: list(c) for p, _, c in items}
    if custom_gm:
        opts["glyphmap_generator"] = "cpless_glyphmap"
    return {"id": cid, "jobs": [job], "meta": {"kind": "names", "fmt": fmt, "vf": False, "expected": dict(opts), "user_config": user_config,
                                               "stems": stems, "paths": sorted(p for p, _, _ in items), "expect_build": not adversarial,
                                               "adversarial": adversarial, "delivery": delivery, "masters": None, "axes": None, "custom_gm": custom_gm}}


def gen_cases(seed, tier, scale=1.0):
    n = int((200 if tier == "quick" else 5000) * scale)
    out = []
    for i in range(n):
        out.append(gen_config_case(seed, i) if i % 2 == 0 else gen_names_case(seed, i))
    return out


# ---------------------------------------------------------------------------
# monitors
# ---------------------------------------------------------------------------

CFG_SKIP = {"fea_file", "masters", "source_names", "axes"}


def _cmp_cfg(sent, got, bdir_abs):
    """field-for-field comparison of a written config and its reloaded form"""
    diffs = []
    if "observer_error" in sent or "observer_error" in got:
        return [("(config could not be read back by the observer)", sent.get("observer_error"), got.get("observer_error"))]
    for k in sent:
        if k in CFG_SKIP:
            continue
        if sent[k] != got.get(k):
            diffs.append((k, sent[k], got.get(k)))
    if sent["axes"] != got["axes"]:
        diffs.append(("axes", sent["axes"], got["axes"]))
    sm = {m["name"]: m for m in sent["masters"]}
    gm = {m["name"]: m for m in got["masters"]}
    if sorted(sm) != sorted(gm):
        diffs.append(("master names", sorted(sm), sorted(gm)))
    else:
        for name in sm:
            a, b = sm[name], gm[name]
            if a["style_name"] != b["style_name"] or sorted(a["position"]) != sorted(b["position"]):
                diffs.append(("master." + name, [a["style_name"], a["position"]], [b["style_name"], b["position"]]))
            sa = sorted(os.path.normpath(os.path.join(bdir_abs, s)) for s in a["sources"])
            sb = sorted(os.path.normpath(os.path.join(bdir_abs, s)) for s in b["sources"])
            if sa != sb:
                diffs.append(("master.%s.sources" % name, sa[:3], sb[:3]))
    return diffs


def monitors(inv, meta, root_hint=None):
    """compare both ends of every hand-off of one invocation; returns (findings, counts)"""
    out = []
    counts = {"config": 0, "glyphmap": 0, "rsp": 0, "parts": 0, "names": 0, "resolution": 0}
    trace = inv.get("trace") or []
    if not inv.get("ninja") or inv.get("driver_fault"):
        return out, counts  # a faulted driver runs untraced (its trace file would be torn too)
    nin = inv["ninja"][0]
    steps = {s["out"]: s for s in nin["steps"] if "out" in s}
    writes = {}
    driver_loads = []
    for t in trace:
        if t["proc"] == "driver" and t["k"] == "config.write":
            writes[t["dest"]] = t["cfg"]
        if t["proc"] == "driver" and t["k"] == "config.load":
            driver_loads.append(t)
    if driver_loads and not writes:
        out.append({"class": "handoff-mismatch", "detail": {"what": "the driver resolved a configuration and ran the build without writing it for the workers",
                                                            "step": "driver", "label": inv.get("label")}})
    # where is the build dir?  every config.write dest is inside it
    bdir_abs = os.path.dirname(next(iter(writes))) if writes else None
    for t in trace:
        if t["proc"] == "driver":
            continue
        st = steps.get(t["proc"])
        ok_step = st is not None and st["status"] == ["exit", 0]
        if t["k"] == "config.load":
            counts["config"] += 1
            sent = writes.get(t["file"])
            if sent is None:
                out.append({"class": "handoff-mismatch", "detail": {"what": "worker loaded a config the driver did not write in this invocation",
                                                                    "step": t["proc"], "file": os.path.basename(t["file"] or "None")}})
                continue
            for k, a, b in _cmp_cfg(sent, t["cfg"], bdir_abs):
                out.append({"class": "handoff-mismatch", "detail": {"what": "config field changed between driver and worker", "field": k.split(".")[0],
                                                                    "step": st["rule"] if st else t["proc"], "sent": a, "got": b}})
        elif t["k"] == "rsp.expand" and st is not None:
            counts["rsp"] += 1
            exp = []
            for a in t["argv"]:
                if a.startswith("@"):
                    exp.extend(st["ins"])
                else:
                    exp.append(a)
            if exp != t["result"]:
                out.append({"class": "handoff-mismatch", "detail": {"what": "response file expansion differs from the edge's inputs", "step": st["rule"],
                                                                    "sent": st["ins"][:4], "got": t["result"][:4]}})
    # glyph mappings: emitted by the glyphmap step, parsed by fea / font steps
    emitted = {}
    for t in trace:
        if t["k"] == "gm.csv_line" and t["proc"] in steps:
            emitted.setdefault(t["proc"], []).append(t["gm"])
    for t in trace:
        if t["k"] == "gm.parse" and bdir_abs:
            rel = os.path.relpath(t["file"], bdir_abs)
            if rel in emitted:
                counts["glyphmap"] += 1
                if emitted[rel] != t["gms"]:
                    first = next((i for i, (a, b) in enumerate(zip(emitted[rel], t["gms"])) if a != b), min(len(emitted[rel]), len(t["gms"])))
                    out.append({"class": "handoff-mismatch", "detail": {
                        "what": "glyph mapping changed between write_glyphmap and its reader", "step": steps[t["proc"]]["rule"] if t["proc"] in steps else t["proc"],
                        "sent": emitted[rel][first] if first < len(emitted[rel]) else None, "got": t["gms"][first] if first < len(t["gms"]) else None}})
    # codepoints recovered from file names; glyph names distinct and legal
    for proc, gms in emitted.items():
        by_name = {}
        for g in gms:
            counts["names"] += 1
            src = g["svg"] or g["png"]
            stem = os.path.basename(src).rsplit(".", 1)[0]
            if meta.get("stems") and not meta.get("custom_gm") and stem in meta["stems"] and meta["stems"][stem] != g["cps"]:
                out.append({"class": "handoff-mismatch", "detail": {"what": "codepoints recovered from the file name differ from the encoded sequence",
                                                                    "step": "glyphmap", "file": stem, "sent": meta["stems"][stem], "got": g["cps"]}})
            if not GLYPH_NAME_RE.match(g["name"]):
                out.append({"class": "illegal-glyph-name", "detail": {"what": "glyph name not legal in a feature file", "name": g["name"], "cps": g["cps"]}})
            prev = by_name.setdefault(g["name"], g["cps"])
            if prev != g["cps"]:
                out.append({"class": "glyph-name-collision", "detail": {
                    "what": "distinct codepoint sequences share a glyph name", "name": g["name"], "a": prev, "b": g["cps"],
                    "pattern": "g-prefix" if (len(g["cps"]) != len(prev) and {tuple(prev), tuple(g["cps"])} == {tuple(prev), (0x67,) + tuple(prev)} or (0x67,) + tuple(g["cps"]) == tuple(prev)) else "other"}})
        if meta.get("stems"):
            got_stems = {os.path.basename(g["svg"] or g["png"]).rsplit(".", 1)[0] for g in gms}
            missing = sorted(set(meta["stems"]) - got_stems)
            if missing:
                out.append({"class": "handoff-mismatch", "detail": {"what": "a source the driver resolved never reached the glyph map", "step": "glyphmap", "missing": missing[:3]}})
    # the glyph mapping a font step reads must describe exactly the sources the driver resolved in this invocation,
    # whether or not the glyphmap step ran this time
    resolved = None
    for t in driver_loads:
        ms = t["cfg"].get("masters") or []
        if len(ms) == 1:
            resolved = {os.path.basename(s_).rsplit(".", 1)[0] for s_ in ms[0]["sources"]}
    if resolved is not None and len(writes) == 1:
        for t in trace:
            if t["k"] == "gm.parse" and t["proc"] in steps and steps[t["proc"]]["rule"] == "write_font" and steps[t["proc"]]["status"] == ["exit", 0]:
                got = {os.path.basename(g["svg"] or g["png"]).rsplit(".", 1)[0] for g in t["gms"] if isinstance(g, dict) and (g.get("svg") or g.get("png"))}
                if got != resolved:
                    out.append({"class": "handoff-mismatch", "detail": {"what": "the glyph mapping read by write_font does not describe the sources the driver resolved",
                                                                        "step": "write_font", "only_in_glyphmap": sorted(got - resolved)[:3], "only_resolved": sorted(resolved - got)[:3]}})
    # parts
    sent_parts = {}
    for t in trace:
        if t["k"] == "parts.to_json" and t["proc"] in steps:
            sent_parts.setdefault(t["proc"], []).append(t["parts"].get("sha"))
    for t in trace:
        if t["k"] == "parts.load" and bdir_abs:
            rel = os.path.relpath(t["file"], bdir_abs)
            if rel in sent_parts:
                counts["parts"] += 1
                if t["parts"].get("sha") is None or t["parts"].get("sha") not in sent_parts[rel]:
                    out.append({"class": "handoff-mismatch", "detail": {"what": "reusable parts changed between writer and reader", "step": steps[t["proc"]]["rule"] if t["proc"] in steps else t["proc"], "file": rel}})
    # resolution: flag > file > default, as seen by the driver
    exp = (meta.get("expected_by_label") or {}).get(inv.get("label")) or meta.get("expected") or {}
    for t in driver_loads:
        cfg = t["cfg"]
        counts["resolution"] += 1
        for k, v in DEFAULTS.items():
            want = exp.get(k, v)
            got = cfg.get(k)
            if isinstance(want, list) and isinstance(got, list):
                same = len(want) == len(got) and all(abs(float(a) - float(b)) <= 1e-12 * max(1.0, abs(float(a))) for a, b in zip(want, got))
            else:
                same = want == got and type(want) == type(got) or (isinstance(want, (int, float)) and not isinstance(want, bool) and isinstance(got, (int, float)) and not isinstance(got, bool) and float(want) == float(got))
            if not same:
                out.append({"class": "resolution-mismatch", "detail": {"what": "driver-resolved value differs from flag > file > default", "field": k, "want": want, "got": got,
                                                                       "given_by": ("flag" if k in (meta.get("flag") or []) else "") + ("+file" if k in (meta.get("file") or []) else "")}})
        if meta.get("masters") is not None:
            gotm = [[m["name"], m["style_name"], m["position"]] for m in cfg["masters"]]
            if gotm != meta["masters"] or cfg["axes"] != meta["axes"]:
                out.append({"class": "resolution-mismatch", "detail": {"what": "axes/masters differ", "field": "masters", "want": [meta["axes"], meta["masters"]], "got": [cfg["axes"], gotm]}})
    return out, counts


def judge(case, results):
    m = case["meta"]
    out = []
    total = {}
    for inv in orch.invokes(results[0]):
        fs, counts = monitors(inv, m)
        out += fs
        for k, v in counts.items():
            total[k] = total.get(k, 0) + v
        for n in inv.get("ninja", []):
            for a in n.get("anomalies", []):
                if a["k"] == "hb.unordered_access":
                    out.append({"class": a["k"], "detail": {"edge": a.get("edge"), "path": a.get("path")}})
    last = orch.invokes(results[0])[-1]
    if m["expect_build"] and last["rc"] != 0:
        failing = next((s["rule"] for n in last.get("ninja", []) for s in n["steps"] if "out" in s and s["status"] != ["exit", 0]), None)
        err = next((n.get("error") for n in last.get("ninja", []) if n.get("error")), None)
        out.append({"class": "valid-project-does-not-build", "detail": {"what": "a hand-off broke the build of a valid project", "step": failing or ("ninja" if err else "driver"),
                                                                        "error": err, "tail": (last.get("steps_tail") or last.get("driver_tail") or "")[-700:]}})
    seen, uniq = set(), []
    for f in out:
        d = f.get("detail") or {}
        key = (f["class"], d.get("what"), d.get("field"), d.get("step"))
        if key not in seen:
            seen.add(key)
            uniq.append(f)
    case["_counts"] = total
    return uniq


def signature(case, results):
    m = case["meta"]
    total = {}
    for inv in orch.invokes(results[0]):
        _, counts = monitors(inv, m)
        for k, v in counts.items():
            total[k] = total.get(k, 0) + v
    if not (total.get("config") and total.get("glyphmap") and total.get("rsp")):
        return None
    if m["kind"] == "config":
        return ("config", m["fmt"], m["vf"], tuple(m["flag"]), tuple(m["file"]), sum(total.values()))
    deco = tuple(sorted({ch for s in m["stems"] for ch in s if not (ch.isalnum() or ch in "_-")}))
    return ("names", m["fmt"], m["delivery"], deco, max(len(c) for c in m["stems"].values()), sum(total.values()))


def describe(case):
    return {"id": case["id"], "meta": case["meta"], "invocations": [op["argv"] for op in case["jobs"][0]["ops"] if op["op"] == "invoke"]}


def extra_coverage(cases, results):
    import collections

    total = collections.Counter()
    fields = collections.Counter()
    decos = collections.Counter()
    longest = 0
    for c in cases:
        m = c["meta"]
        for inv in orch.invokes(results[c["id"]][0]):
            _, counts = monitors(inv, m)
            total.update(counts)
        if m["kind"] == "config":
            for f in m["flag"]:
                fields[f + ":flag"] += 1
            for f in m["file"]:
                fields[f + ":file"] += 1
        else:
            for s in m["stems"]:
                for ch in s:
                    if not (ch.isalnum() or ch in "_-"):
                        decos[ch] += 1
            longest = max(longest, max(len(v) for v in m["stems"].values()))
    return {"handoffs_compared": dict(total), "config_fields_delivered": dict(sorted(fields.items())),
            "name_decoration_characters": dict(sorted(decos.items())), "longest_codepoint_sequence": longest}


if __name__ == "__main__":
    from checks import common

    sys.exit(common.main(sys.modules[__name__]))

"""Generic driver for the five checks.

A check module provides
  PROP                       property id
  LEVEL                      evidence level
  gen_cases(seed, tier)      -> list of cases ({"id", "jobs": [...], "meta": {...}})
  judge(case, results)       -> list of findings {"class", "detail"}   (pure function of the results)
  signature(case, results)   -> hashable signature of a non-trivial case, or None if trivial
  describe(case)             -> short JSON-able description for evidence samples
  RULE                       text for coverage.rule
  ASSUMPTIONS                list of strings
and optionally extra_coverage(cases, results) -> dict, selfcheck(tier) -> dict.
"""
import argparse
import collections
import json
import os
import sys
import time
import traceback

sys.path.insert(0, os.path.dirname(os.path.dirname(os.path.abspath(__file__))))

from sim import orch  # noqa: E402
from sim.orch import HarnessError  # noqa: E402

VERIF = orch.VERIF


def log(msg):
    print("[%s] %s" % (time.strftime("%H:%M:%S"), msg), file=sys.stderr, flush=True)


def match_known(prop, finding, known):
    d = finding.get("detail") or {}
    for k in known:
        ms = k.get("match", {})
        for m in ms if isinstance(ms, list) else [ms]:
            if m.get("class") != finding["class"]:
                continue
            if all((d.get(kk) in vv) if isinstance(vv, list) else (d.get(kk) == vv) for kk, vv in (m.get("where") or {}).items()):
                return k
    return None


def general_stats(cases, results):
    st = {
        "invocations": 0,
        "steps_executed": 0,
        "steps_per_rule": collections.Counter(),
        "dirtiness_reasons": collections.Counter(),
        "faults_planned": collections.Counter(),
        "faults_fired": collections.Counter(),
        "order_signatures": set(),
        "reason_vectors": set(),
        "sim_ns": 0,
        "anomalies": collections.Counter(),
        "invocations_killed": 0,
        "driver_faults_fired": collections.Counter(),
        "torn_files_later_rebuilt": 0,
        "edits_during_build": 0,
        "ninja_errors": collections.Counter(),
        "via_sh": 0,
        "restat_cleaned_edges": 0,
        "latent_undeclared_reads": set(),
        "transient_scratch": set(),
    }
    for c in cases:
        for res in results.get(c["id"], []):
            st["sim_ns"] += res.get("sim_ns", 0)
            torn = set()
            for r in orch.invokes(res):
                st["invocations"] += 1
                if r.get("killed"):
                    st["invocations_killed"] += 1
                df = r.get("driver_fault")
                if df:
                    st["faults_planned"]["driver:" + df["kind"]] += 1
                    if r.get("driver_fault_fired"):
                        st["driver_faults_fired"][df["kind"]] += 1
                        st["faults_fired"]["driver:" + df["kind"]] += 1
                for n in r.get("ninja", []):
                    if n.get("error"):
                        st["ninja_errors"][n["error"].split(":")[0][:40]] += 1
                    if n.get("order_sig"):
                        st["order_signatures"].add((n["order_sig"], n["n_edges"]))
                    st["reason_vectors"].add(tuple(sorted((k, v) for k, v in n["reasons"].items() if v)))
                    for f in n.get("faults", []):
                        kind = (f.get("resolved") or f.get("planned") or {}).get("kind")
                        st["faults_planned"][kind] += 1
                    for a in n.get("anomalies", []):
                        st["anomalies"][a["k"]] += 1
                        if a["k"] == "hb.undeclared_read":
                            st["latent_undeclared_reads"].add((a.get("rule"), os.path.basename(a.get("path", ""))))
                    for s in n["steps"]:
                        if "edit" in s:
                            st["edits_during_build"] += 1
                            continue
                        if "out" not in s:
                            if "restat_cleaned" in s:
                                st["restat_cleaned_edges"] += 1
                            continue
                        for tp in s.get("transient", []):
                            st["transient_scratch"].add((s["rule"], os.path.splitext(tp)[1]))
                        st["steps_executed"] += 1
                        st["steps_per_rule"][s["rule"]] += 1
                        st["dirtiness_reasons"][s["reason"]] += 1
                        if s.get("via_sh"):
                            st["via_sh"] += 1
                        if s.get("fired"):
                            st["faults_fired"][s["fault"]["kind"] if s.get("fault") else "?"] += 1
                            if s["fault"] and s["fault"]["kind"].startswith("torn"):
                                torn.add(s["out"])
                        elif s["status"] == ["exit", 0] and s["out"] in torn:
                            st["torn_files_later_rebuilt"] += 1
                            torn.discard(s["out"])
    out = {}
    for k, v in st.items():
        if isinstance(v, collections.Counter):
            out[k] = {str(kk): vv for kk, vv in sorted(v.items(), key=lambda t: str(t[0]))}
        elif k == "transient_scratch":
            out["transient_scratch_files_seen"] = sorted("%s: *%s" % t for t in v)
        elif k == "latent_undeclared_reads":
            out["latent_undeclared_reads"] = sorted("%s reads %s" % t for t in v)
        elif isinstance(v, set):
            out["distinct_" + k] = len(v)
        else:
            out[k] = v
    out["simulated_time_days"] = round(out.pop("sim_ns") / 86400e9, 2)
    return out


REAL_VS_STUB = {
    "nanoemoji driver, config resolution, all python -m nanoemoji.* steps": "real code, one real forked process each, real exit status",
    "picosvg, resvg, pngquant, zopfli, fontTools, ufo2ft": "real",
    "ninja": "stub (sim/simninja.py): manifest parser + ninja 1.13 dirtiness rules + seeded scheduler; validated against the real ninja by checks/stub_validation.py",
    "process launch": "fork of a preloaded zygote + runpy instead of exec python -m (same __main__ block)",
    "file system": "real tmpfs; only timestamps are overwritten from the simulated clock",
    "write faults": "real kernel behaviour via RLIMIT_FSIZE (EFBIG or SIGXFSZ)",
    "the user": "generated operations",
}


def determinism_selftest(mod, cases, results, n):
    """re-run n cases in other worker processes; fingerprints must be equal."""
    pick = sorted(cases, key=lambda c: orch.H("det", c["id"]))[:n]
    if not pick:
        return {"cases": 0, "mismatches": 0}
    again = orch.run_cases(pick, tag="det", nproc=max(2, orch.NPROC // 2))
    mism = []
    for c in pick:
        a = [r["fingerprint"] for r in results[c["id"]]]
        b = [r["fingerprint"] for r in again[c["id"]]]
        if a != b:
            mism.append(c["id"])
    if mism:
        raise HarnessError("determinism self-test failed: same case, different event log: %s" % mism[:5])
    return {"cases": len(pick), "mismatches": 0}


def replay(mod, path):
    with open(path) as f:
        body = json.load(f)
    case = body["case"]
    res = orch.run_cases([case], tag="replay")[case["id"]]
    fs = mod.judge(case, res)
    fps = [r["fingerprint"] for r in res]
    same_fp = body.get("fingerprints") == fps
    hit = [f for f in fs if f["class"] == body["class"]]
    print("replay %s: class=%s reproduced=%s fingerprint_equal=%s" % (path, body["class"], bool(hit), same_fp))
    for f in fs:
        print("  finding:", json.dumps(f, sort_keys=True)[:1500])
    if hit:
        print("VIOLATION property=%s replay=%s" % (mod.PROP, path))
        return 1
    return 0


def main(mod):
    ap = argparse.ArgumentParser()
    ap.add_argument("--tier", default=os.environ.get("VERIF_TIER") or "quick", choices=["quick", "thorough"])
    ap.add_argument("--replay")
    ap.add_argument("--seed", type=int, default=None)
    ap.add_argument("--scale", type=float, default=float(os.environ.get("VERIF_SCALE", "1")))
    ap.add_argument("--no-shrink", action="store_true")
    ap.add_argument("--no-evidence", action="store_true")
    ap.add_argument("--no-selfcheck", action="store_true")
    a = ap.parse_args()
    seed = a.seed if a.seed is not None else int(os.environ.get("VERIF_SEED") or 0)
    t0 = time.time()
    try:
        if a.replay:
            rc = replay(mod, a.replay)
            orch.cleanup()
            return rc
        print("VERIF_SEED=%d tier=%s property=%s" % (seed, a.tier, mod.PROP), flush=True)
        from sim import world

        caps = world.probe_capabilities()
        if not all(caps.values()):
            raise HarnessError("scratch filesystem lacks a capability the monitors need: %s" % caps)
        selfcheck, selfcheck_err = None, None
        if hasattr(mod, "selfcheck") and not a.no_selfcheck:
            try:
                selfcheck = mod.selfcheck(a.tier, seed)
            except HarnessError as e:
                selfcheck_err = e  # decided below: a violation found by the check itself wins
        cases = mod.gen_cases(seed, a.tier, a.scale)
        log("%d cases, %d jobs" % (len(cases), sum(len(c["jobs"]) for c in cases)))
        results = orch.run_cases(cases, tag="main")
        t_run = time.time() - t0
        known = orch.load_known(mod.PROP)
        violations, known_hits, sigs = [], collections.OrderedDict(), set()
        discarded = 0
        for c in cases:
            fs = mod.judge(c, results[c["id"]])
            for f in fs:
                if f["class"] == "discard":
                    discarded += 1
                    continue
                k = match_known(mod.PROP, f, known)
                if k is not None:
                    known_hits.setdefault(k["id"], {"entry": k, "count": 0, "example": c["id"]})["count"] += 1
                else:
                    violations.append((c, f))
            s = mod.signature(c, results[c["id"]])
            if s is not None:
                sigs.add(s)
        if discarded > max(3, len(cases) // 10):
            why = next((f.get("detail") for c in cases for f in mod.judge(c, results[c["id"]]) if f["class"] == "discard"), None)
            raise HarnessError("%d of %d cases could not be evaluated (their valid-by-construction inputs do not build even in a clean "
                               "directory), so this run decides nothing; first reason: %s" % (discarded, len(cases), json.dumps(why)[:1500]))
        if selfcheck_err is not None:
            if not violations:
                raise selfcheck_err
            # the stub and the real ninja part ways on this tree (a rule's command line no longer has the shape the outside
            # fault devices recognise, say): what the check found stands, the disagreement is reported next to it
            selfcheck = {"error": str(selfcheck_err)[:300]}
            print("note: %s" % str(selfcheck_err)[:300])
        try:
            det = determinism_selftest(mod, cases, results, 8 if a.tier == "quick" else 48)
        except HarnessError as e:
            if not violations:
                raise
            # the system under test itself is not reproducible: that may well be the violation being reported
            det = {"cases": 0, "mismatches": str(e)[:300]}
            print("note: %s" % str(e)[:300])
        # ---- report
        for kid, h in known_hits.items():
            print("KNOWN-FINDING: property=%s %s (%s; matched %d case(s), e.g. %s)" % (
                mod.PROP, h["entry"]["what"], kid, h["count"], h["example"]))
        reported = []
        seen_classes = collections.Counter()
        if violations:
            brief = collections.Counter()
            example = {}
            for c, f in violations:
                d = f.get("detail") or {}
                key = (f["class"],) + tuple(str(d.get(k)) for k in getattr(mod, "BRIEF_KEYS", ()))
                brief[key] += 1
                example.setdefault(key, c["id"])
            for k, v in sorted(brief.items()):
                print("violations: %4d x %s (e.g. %s)" % (v, " ".join(k), example[k]))
        for c, f in violations:
            seen_classes[f["class"]] += 1
            if seen_classes[f["class"]] > 2:  # at most two replay files per class and run
                continue
            final = orch.concretize(c, results[c["id"]])
            shr_runs = 0
            if not a.no_shrink:
                def judge_unknown(cc, rr):
                    return [x for x in mod.judge(cc, rr) if match_known(mod.PROP, x, known) is None]
                try:
                    chk = orch.run_cases([final], tag="conc")[final["id"]]
                    if any(x["class"] == f["class"] for x in judge_unknown(final, chk)):
                        final, shr_runs = orch.shrink(final, judge_unknown, f["class"], log=log,
                                                      protect=getattr(mod, "protect", None))
                    else:
                        final = c
                except HarnessError as e:
                    log("shrink skipped: %s" % str(e)[:200])
                    final = c
            fres = orch.run_cases([final], tag="final")[final["id"]]
            ff = [x for x in mod.judge(final, fres) if x["class"] == f["class"]]
            if not ff:
                raise HarnessError("violation %s of case %s did not reproduce on re-execution" % (f["class"], c["id"]))
            path = orch.write_replay(mod.PROP, final, ff[0], fres, seed)
            print("violation class=%s case=%s shrink_runs=%d detail=%s" % (
                f["class"], c["id"], shr_runs, json.dumps(ff[0].get("detail"), sort_keys=True)[:1200]))
            print("VIOLATION property=%s replay=%s" % (mod.PROP, path), flush=True)
            reported.append({"class": f["class"], "replay": path})
        wall = time.time() - t0
        # ---- evidence
        if not a.no_evidence:
            gs = general_stats(cases, results)
            cov = {
                "evaluations": len(cases),
                "distinct_nontrivial": len(sigs),
                "rule": mod.RULE,
                "samples": [mod.describe(c) for c in cases[:3]],
                "simulated_runs": len(cases),
                "jobs": sum(len(c["jobs"]) for c in cases),
                "runs_per_hour": int(len(cases) / max(t_run, 1e-6) * 3600),
                "seeds": {"VERIF_SEED": seed, "case_seeds": "H(VERIF_SEED, property, case index) per case; one PRNG per concern"},
                "discarded_cases": discarded,
                "violation_classes": dict(seen_classes),
                "known_findings_matched": {k: v["count"] for k, v in known_hits.items()},
                "determinism_selftest": det,
                "capabilities": caps,
                "real_vs_stub": REAL_VS_STUB,
                "workers": orch.NPROC,
            }
            cov.update(gs)
            if hasattr(mod, "extra_coverage"):
                cov.update(mod.extra_coverage(cases, results))
            if selfcheck is not None:
                cov["stub_validation"] = selfcheck
            ev = {
                "property_id": mod.PROP,
                "tier": a.tier,
                "seed": seed,
                "level": mod.LEVEL,
                "coverage": cov,
                "assumptions": mod.ASSUMPTIONS,
                "wall_s": round(wall, 1),
                "violations": len(violations),
            }
            os.makedirs(os.path.join(VERIF, "evidence"), exist_ok=True)
            with open(os.path.join(VERIF, "evidence", mod.PROP + ".json"), "w") as f:
                json.dump(ev, f, indent=1, sort_keys=True)
        print("%s: %d cases, %d distinct non-trivial, %d violation(s), %d known-finding match(es), %.0f s" % (
            mod.PROP, len(cases), len(sigs), len(violations), sum(v["count"] for v in known_hits.values()), wall))
        orch.cleanup()
        return 1 if violations else 0
    except HarnessError as e:
        print("HARNESS-ERROR property=%s %s" % (mod.PROP, str(e)[:4000]), flush=True)
        orch.cleanup()
        return 2
    except Exception:
        print("HARNESS-ERROR property=%s unexpected exception\n%s" % (mod.PROP, traceback.format_exc()), flush=True)
        orch.cleanup()
        return 2

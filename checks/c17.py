"""C17 - ambiguous or unusable input stops the build instead of yielding a wrong glyph."""
import hashlib
import os
import sys

sys.path.insert(0, os.path.dirname(os.path.dirname(os.path.abspath(__file__))))
from sim import gen, orch  # noqa: E402
from sim.orch import H  # noqa: E402

PROP = "C17"
LEVEL = "exploration"
RULE = (
    "case = 1-6 valid sources + ONE defect (D1 two files decoding to the same codepoint sequence, D1g two distinct sequences "
    "with the same glyph name (g_ prefix, or U+000A..F vs a..f), D1n same file name in two directories - also as a config file "
    "plus a namesake on the command line, D1v duplicates inside every master of a variable font, D2 unparsable XML, D3 one of "
    "ten unsupported colour / spreadMethod strings, D4 one palette index with two colours, D5 masters with different source "
    "sets (three shapes, both master orders), D6 CBDT bitmap > 255 px, D7 radial gradient under a non-uniform transform in "
    "OT-SVG), defect position in argv, colour format (only cells where the class applies), schedule and -j drawn from the "
    "seed; cold build directory or one warmed by the valid subset / by the defective file's own name with valid content / by "
    "same-named valid files from another directory; alone or together with a healthy second configuration; the defective "
    "command is run twice. Oracle: exit status != 0 and the output font is absent or untouched (same stamp and digest as "
    "before the invocation). distinct = (defect class, format, warm-up kind, companion, argv position bucket, failing rule); "
    "non-trivial = the defective invocation got as far as running at least one build step or was rejected by the driver with "
    "the defect present in its resolved inputs."
)
ASSUMPTIONS = [
    "applicability of a defect class to a colour format follows the property's wording (paint defects only where nanoemoji interprets paint; palette conflicts only in COLR builds)",
    "SimNinja reproduces ninja's failure propagation (first failure stops new work, in-flight siblings finish, exit 1)",
]

BAD_XML = [
    'text:<svg xmlns="http://www.w3.org/2000/svg" viewBox="0 0 100 100"><rect x="1"',
    "text:this is not xml",
    'text:<svg xmlns="http://www.w3.org/2000/svg" viewBox="0 0 100 100"><g><rect width="5" height="5"/></svg>',
    "text:",
]
BAD_PAINT = [
    'text:<svg xmlns="http://www.w3.org/2000/svg" viewBox="0 0 100 100"><rect x="10" y="10" width="50" height="50" fill="notacolor"/></svg>',
    'text:<svg xmlns="http://www.w3.org/2000/svg" viewBox="0 0 100 100"><rect x="10" y="10" width="50" height="50" fill="#12"/></svg>',
    'text:<svg xmlns="http://www.w3.org/2000/svg" viewBox="0 0 100 100"><defs><linearGradient id="g" spreadMethod="bogus" x1="0" y1="0" x2="100" y2="0" gradientUnits="userSpaceOnUse"><stop offset="0" stop-color="red"/><stop offset="1" stop-color="blue"/></linearGradient></defs><rect x="10" y="10" width="50" height="50" fill="url(#g)"/></svg>',
    'text:<svg xmlns="http://www.w3.org/2000/svg" viewBox="0 0 100 100"><rect x="10" y="10" width="50" height="50" fill="rgb(1,2)"/></svg>',
    'text:<svg xmlns="http://www.w3.org/2000/svg" viewBox="0 0 100 100"><rect x="10" y="10" width="50" height="50" fill="#FF00FF0000"/></svg>',
    'text:<svg xmlns="http://www.w3.org/2000/svg" viewBox="0 0 100 100"><rect x="10" y="10" width="50" height="50" fill="#12345"/></svg>',
    'text:<svg xmlns="http://www.w3.org/2000/svg" viewBox="0 0 100 100"><rect x="10" y="10" width="50" height="50" fill="#1234567"/></svg>',
    'text:<svg xmlns="http://www.w3.org/2000/svg" viewBox="0 0 100 100"><rect x="10" y="10" width="50" height="50" fill="#GGHHII"/></svg>',
    'text:<svg xmlns="http://www.w3.org/2000/svg" viewBox="0 0 100 100"><rect x="10" y="10" width="50" height="50" fill="rgb(1,2,3,4)"/></svg>',
    'text:<svg xmlns="http://www.w3.org/2000/svg" viewBox="0 0 100 100"><rect x="10" y="10" width="50" height="50" fill="rgb(100%, 0%, 0%)"/></svg>',
    'text:<svg xmlns="http://www.w3.org/2000/svg" viewBox="0 0 100 100"><rect x="10" y="10" width="50" height="50" fill="rgba(255,0,0,0.5)"/></svg>',
    'text:<svg xmlns="http://www.w3.org/2000/svg" viewBox="0 0 100 100"><rect x="10" y="10" width="50" height="50" fill="hsl(0,100%,50%)"/></svg>',
    'text:<svg xmlns="http://www.w3.org/2000/svg" viewBox="0 0 100 100"><rect x="10" y="10" width="50" height="50" fill="rgb(a,b,c)"/></svg>',
    'text:<svg xmlns="http://www.w3.org/2000/svg" viewBox="0 0 100 100"><defs><linearGradient id="g" x1="0" y1="0" x2="100" y2="0" gradientUnits="userSpaceOnUse"><stop offset="0" stop-color="#FF00FF00FF00"/><stop offset="1" stop-color="blue"/></linearGradient></defs><rect x="10" y="10" width="50" height="50" fill="url(#g)"/></svg>',
]
PALETTE_A = 'text:<svg xmlns="http://www.w3.org/2000/svg" viewBox="0 0 100 100"><path fill="var(--color1, #FF0000)" d="M10,10 L90,10 L90,90 L10,90 Z"/></svg>'
PALETTE_B = 'text:<svg xmlns="http://www.w3.org/2000/svg" viewBox="0 0 100 100"><path fill="var(--color1, #00FF00)" d="M20,20 L80,20 L80,80 L20,80 Z"/></svg>'
PALETTE_AB = 'text:<svg xmlns="http://www.w3.org/2000/svg" viewBox="0 0 100 100"><path fill="var(--color1, #FF0000)" d="M10,10 L90,10 L90,90 L10,90 Z"/><path fill="var(--color1, #00FF00)" d="M20,20 L80,20 L80,80 L20,80 Z"/></svg>'

PAINT_FORMATS = gen.PICO
BRIEF_KEYS = ("defect", "fmt", "warm", "invocation")
DEFECTS = ["D1", "D1", "D1", "D1g", "D1n", "D1n", "D1v", "D2", "D2", "D3", "D3", "D3", "D4", "D4", "D5", "D6", "D7"]


def gen_case(seed, idx):
    r = gen.rng(seed, "c17", idx)
    defect = r.choice(DEFECTS)
    if defect in ("D3",):
        fmt = r.choice(PAINT_FORMATS)
    elif defect == "D4":
        fmt = r.choice(gen.COLR)
    elif defect in ("D5", "D1v"):
        fmt = r.choice(["glyf_colr_1", "glyf_colr_0", "glyf"])
    elif defect == "D7":
        fmt = r.choice(["picosvg", "picosvgz"])
    elif defect == "D6":
        fmt = "cbdt"
    else:
        fmt = gen.pick_format(r, 0.6)
    small = fmt in gen.BITMAP
    n_valid = r.randint(1, 6)
    valid = gen.source_set(gen.rng(seed, "c17", idx, "names"), n_valid, small=small)
    srcs = {p: c for p, c, _ in valid}
    cps_of = {p: cps for p, c, cps in valid}
    bad = {}
    opts = {"color_format": fmt, "output_file": "Font" + gen.ext_for(fmt)}
    if small:
        opts["bitmap_resolution"] = 24
    toml = None
    if defect == "D1":
        victim = r.choice(sorted(srcs))
        cps = cps_of[victim]
        hexes = ["%04x" % c for c in cps]
        forms = ["emoji_u" + "_".join(hexes), "u" + "_".join(hexes), "-".join(h.upper() for h in hexes),
                 "_".join("%06x" % c for c in cps), "emoji_u" + "_".join(h.upper() for h in hexes), "x " + "-".join(hexes)]
        forms = [f for f in forms if "src/" + f + ".svg" not in srcs]
        d = r.choice(["src", "src", "src2"])
        bad[d + "/" + r.choice(forms) + ".svg"] = gen.content(r, small)
    elif defect == "D1g":
        # (U+0067, X) is named g_<hex X>, and so is (X,) when hex X starts with a digit
        if r.random() < 0.6:
            x = r.choice([0x1F600, 0x1F601, 0x270D, 0x2764, 0x31])
            pair = ((x,), (0x67, x))
        else:
            # U+000A..U+000F are spelled "a".."f", exactly like the letters U+0061..U+0066
            k = r.randrange(6)
            tail = r.choice([(), (0x1F600,), (0x200D, 0x2764)])
            pair = ((0x0A + k,) + tail, (0x61 + k,) + tail)
        for cps in pair:
            bad["src/emoji_u" + "_".join("%04x" % c for c in cps) + ".svg"] = gen.content(r, small)
        for p in list(srcs):
            if cps_of[p] in pair:
                del srcs[p]
    elif defect == "D1n":
        victim = r.choice(sorted(srcs))
        bad["other/" + os.path.basename(victim)] = gen.content(r, small)
    elif defect == "D2":
        new = gen.source_set(gen.rng(seed, "c17", idx, "bad"), 1)[0]
        if new[2] in cps_of.values() or new[0] in srcs:
            return None
        bad[new[0]] = r.choice(BAD_XML)
    elif defect == "D3":
        new = gen.source_set(gen.rng(seed, "c17", idx, "bad"), 1)[0]
        if new[2] in cps_of.values() or new[0] in srcs:
            return None
        bad[new[0]] = r.choice(BAD_PAINT)
    elif defect == "D4":
        if r.random() < 0.5:
            bad["src/emoji_u1f9ff.svg"] = PALETTE_AB
        else:
            bad["src/emoji_u1f9ff.svg"] = PALETTE_A
            bad["src/emoji_u1f9fe.svg"] = PALETTE_B
    elif defect == "D5":
        names = ["emoji_u41.svg", "emoji_u42.svg", "emoji_u43.svg"]
        srcs = {"thin/" + n: "corpus:vf/thin61.svg" for n in names[:2]}
        shape = r.choice(["different", "later-lacks-one", "later-has-extra"])
        if shape == "different":
            bad = {"bold/" + names[0]: "corpus:vf/bold61.svg", "bold/" + names[2]: "corpus:vf/bold61.svg"}
        elif shape == "later-lacks-one":
            bad = {"bold/" + names[0]: "corpus:vf/bold61.svg"}
        else:
            bad = {"bold/" + n: "corpus:vf/bold61.svg" for n in names}
        toml = gen.toml_config(
            {"output_file": "Font.ttf", "color_format": fmt},
            None,
            masters=dict(sorted({"thin": {"style_name": "Thin", "srcs": ["thin/*.svg"], "position": {"wght": 300}},
                                 "bold": {"style_name": "Bold", "srcs": ["bold/*.svg"], "position": {"wght": 700}}}.items(),
                                reverse=r.random() < 0.5)),
            axes={"wght": ("Weight", 300)},
        )
    elif defect == "D1v":
        # every master of a variable font holds two files that decode to the same codepoint
        srcs = {}
        bad = {}
        for m, c in (("thin", "corpus:vf/thin61.svg"), ("bold", "corpus:vf/bold61.svg")):
            srcs[m + "/emoji_u62.svg"] = c
            bad[m + "/emoji_u61.svg"] = c
            bad[m + "/u61.svg"] = c
        toml = gen.toml_config(
            {"output_file": "Font.ttf", "color_format": fmt}, None,
            masters={"thin": {"style_name": "Thin", "srcs": ["thin/*.svg"], "position": {"wght": 300}},
                     "bold": {"style_name": "Bold", "srcs": ["bold/*.svg"], "position": {"wght": 700}}},
            axes={"wght": ("Weight", 300)})
    elif defect == "D7":
        # a radial gradient under a NON-uniform user transform cannot be expressed in an OT-SVG glyph document
        opts["transform"] = r.choice(["scale(1 0.5)", "matrix(1 0 0.3 0.8 0 0)", "scale(2 1)"])
        new = gen.source_set(gen.rng(seed, "c17", idx, "bad"), 1)[0]
        if new[2] in cps_of.values() or new[0] in srcs:
            return None
        srcs = {p_: c_ for p_, c_ in srcs.items() if isinstance(c_, str) and "gradient" not in c_ and "clock" not in c_ and "263a" not in c_}
        bad[new[0]] = r.choice(["corpus:radial_gradient_rect.svg", "corpus:radial_gradient_square.svg"])
    elif defect == "D6":
        if r.random() < 0.5:
            opts["bitmap_resolution"] = r.choice([256, 256, 257, 300])
        else:
            # the default-ish height is fine, but a 2:1 picture is 256 px WIDE at 128 px height: one pixel over the limit
            opts["bitmap_resolution"] = 128
            new = gen.source_set(gen.rng(seed, "c17", idx, "bad"), 1)[0]
            if new[2] in cps_of.values() or new[0] in srcs:
                return None
            bad[new[0]] = {"kind": "rects", "n": 3, "seed": idx % 40, "viewbox": [0, 0, 200, 100]}
        opts["use_pngquant"] = False
        opts["use_zopflipng"] = False
    warm = r.random() < 0.5 and defect not in ("D5", "D1v")
    ops = [{"op": "write", "path": p, "content": c} for p, c in sorted(srcs.items())]
    rs = gen.rng(seed, "c17", idx, "sched")

    verbose = r.choice([[], [], [], ["-v", "1"], ["--verbosity", "1"], ["-v", "-1"]])  # how chatty the build is must not change whether it fails

    def argv_for(paths, o):
        a = list(paths)
        r.shuffle(a)
        flags = gen.flag_args(o) + verbose
        return flags + a if r.random() < 0.7 else a + flags

    # "same-name" warm-up: the defective files first exist with VALID content and are part of the warm build,
    # so every intermediate of theirs is present and fresh when the defect arrives
    same_name = warm and defect in ("D2", "D3", "D4") and r.random() < 0.5
    other_dir = warm and not same_name and defect in ("D2", "D3", "D4") and toml is None and r.random() < 0.5
    if warm:
        o_valid = dict(opts)
        if defect == "D6":
            o_valid["bitmap_resolution"] = 24
        warm_srcs = sorted(srcs)
        if same_name:
            for p in sorted(bad):
                ops.append({"op": "write", "path": p, "content": "corpus:rect.svg" if not small else "corpus:one_rect.svg", "keep": True})
            warm_srcs = sorted(list(srcs) + list(bad))
        if other_dir:
            # the warm build is made from same-named, valid files in ANOTHER directory; the defective invocation then
            # names the real directory: every intermediate path is identical, only the source paths differ
            warm_srcs = []
            for p in sorted(list(srcs) + list(bad)):
                q = "v1/" + os.path.basename(p)
                ops.append({"op": "write", "path": q, "content": srcs.get(p, "corpus:rect.svg" if not small else "corpus:one_rect.svg"), "keep": True})
                warm_srcs.append(q)
            if len({os.path.basename(p) for p in warm_srcs}) != len(warm_srcs):
                return None
        ops.append({"op": "invoke", "cwd": ".", "argv": argv_for(warm_srcs, o_valid), "build_dir": "build",
                    "label": "warm", "sched": gen.sched(rs), "keep": True})
    for p, c in sorted(bad.items()):
        ops.append({"op": "write", "path": p, "content": c, "keep": True})
    if toml is not None:
        ops.append({"op": "write", "path": "config.toml", "content": "text:" + toml, "keep": True})
        argv = ["config.toml"] + verbose
    else:
        argv = argv_for(sorted(list(srcs) + list(bad)), opts)
    mixed = defect == "D1n" and r.random() < 0.5
    if mixed:
        # the valid sources are listed in a configuration file, the namesake from the other directory is given on the command line
        ops.append({"op": "write", "path": "config.toml", "content": "text:" + gen.toml_config(opts, sorted(srcs)), "keep": True})
        extra = sorted(bad)
        argv = ((["config.toml"] + extra) if r.random() < 0.5 else (extra + ["config.toml"])) + verbose
    companion = toml is None and not mixed and defect not in ("D6", "D5") and r.random() < 0.25
    if companion:
        # the defective configuration is built together with a healthy one: the invocation must still fail and the
        # defective configuration's font must not be (re)written
        good = dict(opts)
        good["output_file"] = "Good" + gen.ext_for(fmt)
        good["family"] = "Good Companion"
        ops.append({"op": "write", "path": "bad.toml", "content": "text:" + gen.toml_config(opts, sorted(list(srcs) + list(bad))), "keep": True})
        ops.append({"op": "write", "path": "good.toml", "content": "text:" + gen.toml_config(good, sorted(srcs)), "keep": True})
        argv = (["bad.toml", "good.toml"] if r.random() < 0.5 else ["good.toml", "bad.toml"]) + verbose
    pos = min([argv.index(p) for p in bad if p in argv] or [0]) if toml is None else 0
    ops.append({"op": "invoke", "cwd": ".", "argv": argv, "build_dir": "build", "label": "bad1", "sched": gen.sched(rs), "final": True})
    ops.append({"op": "invoke", "cwd": ".", "argv": argv, "build_dir": "build", "label": "bad2", "sched": gen.sched(rs), "final": True})
    cid = "c17-%d-%d" % (seed, idx)
    job = {"id": cid + ".j0", "root_id": "c17/%d/%d" % (seed, idx), "hashseed": H(seed, "c17", idx, "hs") % 4294967296,
           "clock_seed": idx, "readdir_seed": H(seed, "c17", idx, "rd") % (1 << 31), "keep_trace": False, "ops": ops}
    return {"id": cid, "jobs": [job], "meta": {"defect": defect, "fmt": fmt, "warm": warm, "font": opts["output_file"],
                                               "pos": pos, "n_args": len(argv), "bad": sorted(bad), "same_name": same_name, "other_dir": other_dir, "companion": companion}}


def gen_cases(seed, tier, scale=1.0):
    n = int((150 if tier == "quick" else 4000) * scale)
    out = []
    for i in range(n):
        c = gen_case(seed, i)
        if c is not None:
            out.append(c)
    return out


def judge(case, results):
    invs = orch.invokes(results[0])
    lab = {r.get("label"): r for r in invs}
    font = case["meta"]["font"]
    out = []
    if case["meta"]["warm"]:
        w = lab["warm"]
        if w["rc"] != 0 or font not in w["listing"]:
            return [{"class": "discard", "detail": {"why": "valid subset did not build"}}]
        prev = (w["listing"].get(font), w["stamps"].get(font))
    else:
        prev = (None, None)
    for name in ("bad1", "bad2"):
        r = lab[name]
        cur = (r["listing"].get(font), r["stamps"].get(font))
        d = {"defect": case["meta"]["defect"], "fmt": case["meta"]["fmt"], "warm": case["meta"]["warm"],
             "invocation": name, "bad": case["meta"]["bad"]}
        if r["rc"] == 0:
            out.append({"class": "accepted-defect", "detail": d})
        elif cur != prev:
            d["font_before"], d["font_after"] = prev, cur
            out.append({"class": "fresh-font-after-failure", "detail": d})
        for n in r.get("ninja", []):
            for a in n.get("anomalies", []):
                if a["k"] == "hb.unordered_access":
                    out.append({"class": a["k"], "detail": {"edge": a.get("edge"), "path": a.get("path")}})
    # one finding per class is enough for a case
    seen, uniq = set(), []
    for f in out:
        if f["class"] not in seen:
            seen.add(f["class"])
            uniq.append(f)
    return uniq


def _failing_rule(r):
    for n in r.get("ninja", []):
        if n.get("error"):
            return "ninja:" + n["error"][:20]
        for s in n["steps"]:
            if "out" in s and s["status"] != ["exit", 0]:
                return s["rule"]
    return "driver" if r["rc"] != 0 else "none"


def signature(case, results):
    invs = orch.invokes(results[0])
    lab = {r.get("label"): r for r in invs}
    m = case["meta"]
    posb = 0 if m["pos"] == 0 else (2 if m["pos"] >= m["n_args"] - 1 else 1)
    return (m["defect"], m["fmt"], m["warm"], m.get("same_name"), m.get("other_dir"), m.get("companion"), posb, _failing_rule(lab["bad1"]))


def describe(case):
    return {"id": case["id"], "meta": case["meta"],
            "ops": [{k: (v if k != "content" or len(str(v)) < 90 else str(v)[:87] + "...") for k, v in op.items() if k in ("op", "path", "content", "argv", "label", "sched")}
                    for op in case["jobs"][0]["ops"]]}


def extra_coverage(cases, results):
    import collections

    per = collections.Counter()
    rule = collections.Counter()
    for c in cases:
        per["%s/%s" % (c["meta"]["defect"], ("warm-same-name" if c["meta"].get("same_name") else ("warm-other-dir" if c["meta"].get("other_dir") else "warm")) if c["meta"]["warm"] else "cold")] += 1
        lab = {r.get("label"): r for r in orch.invokes(results[c["id"]][0])}
        rule[_failing_rule(lab["bad1"])] += 1
    return {"cases_per_defect_class": dict(sorted(per.items())), "first_failing_step": dict(sorted(rule.items()))}


if __name__ == "__main__":
    from checks import common

    sys.exit(common.main(sys.modules[__name__]))

"""developer aid: run one generated case and dump what the judge saw.
usage: python -m checks.debug c20 c20B-0-3 [--keep]"""
import importlib, json, os, sys
sys.path.insert(0, os.path.dirname(os.path.dirname(os.path.abspath(__file__))))
from sim import orch

def main():
    mod = importlib.import_module("checks." + sys.argv[1])
    cid = sys.argv[2]
    seed = int(cid.split("-")[1])
    tier = os.environ.get("VERIF_TIER", "quick")
    cases = [c for c in mod.gen_cases(seed, tier, float(os.environ.get("VERIF_SCALE", "1"))) if c["id"] == cid]
    if not cases:
        sys.exit("no such case")
    c = cases[0]
    if "--keep" in sys.argv:
        for jb in c["jobs"]:
            jb["keep_world"] = True
            jb["keep_tails"] = True
    res = orch.run_cases([c], tag="dbg")[c["id"]]
    print(json.dumps(mod.describe(c), indent=1, ensure_ascii=False)[:6000])
    for f in mod.judge(c, res):
        print("FINDING", json.dumps(f, ensure_ascii=False)[:3000])
    if "--events" in sys.argv:
        for r in res:
            for e in r["events"]:
                if e["op"] == "invoke":
                    x = e["result"]
                    print("INV", x["label"], "rc", x["rc"], [ (n["rc"], n["error"]) for n in x["ninja"]])
                    for n in x["ninja"]:
                        for s in n["steps"]:
                            if "out" in s: print("   ", s["out"], s["reason"], s["status"], s.get("fault"))
                    if x["rc"]: print(x.get("steps_tail","")[-1500:], x.get("driver_tail","")[-800:])
                elif e["op"] == "inspect":
                    print("INSPECT", e["label"], json.dumps(e["result"])[:3000])
    orch.cleanup()
main()

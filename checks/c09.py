"""C09 - re-running after any edit or interruption converges to the clean build."""
import hashlib
import json
import os
import sys

sys.path.insert(0, os.path.dirname(os.path.dirname(os.path.abspath(__file__))))
from sim import gen, orch  # noqa: E402
from sim.orch import H  # noqa: E402

PROP = "C09"
LEVEL = "exploration"
RULE = (
    "case = seeded history on one build directory: 1-6 user operations (add/modify/remove/rename source, "
    "rename or cp -p onto an existing name, change option, switch flag/TOML delivery) interleaved with 1-4 "
    "invocations carrying a fault plan (step fail_before/fail_after/torn EFBIG/torn SIGXFSZ on a dirty edge, "
    "driver torn/killed, whole invocation killed after k edges, source edited during the build), then ONE "
    "fault-free invocation, then a clean build of the same inputs at the same path as reference. "
    "Further generators: variable-font projects, revert patterns (edit, failing step that wrote, undo), walks through the bitmap "
    "pipeline (pngquant succeeding / giving up, zopflipng on / off, flat / rich artwork). Fault kinds also include a step or the "
    "driver killed just before its k-th file-system mutation and a failing / killed inner tool (pngquant). "
    "thorough adds an exhaustive single-fault sweep over fixed base states (quick: a reduced sweep over one base state chosen by the seed). "
    "distinct = distinct (op kinds, per-invocation set of (rule, dirtiness reason), fired fault kinds); "
    "non-trivial = the final invocation met state left by at least one earlier invocation."
)
ASSUMPTIONS = [
    "SimNinja reproduces ninja 1.13 dirtiness and failure semantics (validated by checks/stub_validation.py against the real binary)",
    "a simulated step is atomic in simulated time; a crash is modelled by RLIMIT_FSIZE (write cut at byte n, then EFBIG or SIGXFSZ)",
    "no file-system level loss or reordering (nanoemoji never fsyncs; the property's faults are process faults)",
    "all steps of one worker share one PYTHONHASHSEED",
]

BRIEF_KEYS = ("cause", "label", "first_diverging_file")

OPTS_FOR_HISTORY = [
    "upem", "width", "ascender", "descender", "linegap", "version_major", "family", "reuse_tolerance",
    "keep_glyph_names", "clip_to_viewbox", "clipbox_quantization", "pretty_print", "transform",
    "bitmap_resolution", "use_pngquant", "use_zopflipng", "pngquant_flags",
]


class Project:
    """the user's side of the world, as the generator tracks it"""

    def __init__(self, r):
        self.r = r
        self.sources = {}  # relpath -> content ref
        self.cps = {}
        self.fmt = gen.pick_format(r)
        self.opts = {}
        self.delivery = r.choice(["flags", "flags", "toml", "both"])
        self.glob = r.random() < 0.5
        self.removed = []  # names that existed once
        self.verbose = r.choice([[], [], [], [], [], ["-v", "1"]])  # a chattier build must fail just as loudly

    def base_opts(self):
        o = {"color_format": self.fmt, "output_file": "Font" + gen.ext_for(self.fmt)}
        if self.fmt in gen.BITMAP:
            o["bitmap_resolution"] = self.opts.get("bitmap_resolution", 32)
        o.update(self.opts)
        return o

    def font_name(self):
        return "Font" + gen.ext_for(self.fmt)

    def config_ops_and_argv(self):
        """-> (ops writing config.toml if needed, argv)"""
        o = self.base_opts()
        srcs = sorted(self.sources)
        if self.delivery == "flags":
            return [], gen.flag_args(o) + self.verbose + srcs
        if self.glob and len({os.path.dirname(s) for s in srcs}) == 1 and not any(ch in s for s in srcs for ch in "[]"):
            toml_srcs = [os.path.dirname(srcs[0]) + "/*.svg"]
        else:
            toml_srcs = srcs
        if self.delivery == "toml":
            text = gen.toml_config(o, toml_srcs)
            return [{"op": "write", "path": "config.toml", "content": "text:" + text}], self.verbose + ["config.toml"]
        # both: file carries everything, some options additionally overridden by flag
        keys = sorted(k for k in o if k not in ("color_format", "output_file"))
        over = {k: o[k] for k in keys[::2]}
        file_o = dict(o)
        for k in over:  # file gets a different value, the flag must win
            vals = [v for v in gen.OPTION_VALUES.get(k, []) if v != o[k]]
            if vals:
                file_o[k] = vals[0]
        text = gen.toml_config(file_o, toml_srcs)
        return [{"op": "write", "path": "config.toml", "content": "text:" + text}], gen.flag_args(over) + self.verbose + ["config.toml"]


def _fault_plan(r, enabled, bitmap=False):
    plan = {}
    if r.random() < 0.35 or not enabled:
        return plan
    kind = r.choice(enabled)
    if kind == "step":
        fs = []
        if r.random() < (0.4 if bitmap else 0.12):
            fs.append({"pick": r.randint(0, 1 << 30), "kind": "inner_fail", "rules": r.choice([["pngquant"], ["pngquant"], ["write_bitmap"], ["picosvg"]]), "code": r.choice([1, 2, 3, 15, 35, 139]),
                       "mode": r.choice(["no_output", "no_output", "partial", "partial"]), "signal": r.choice([None, None, 9, 11, 15])})
        for _ in range(r.choice([1, 1, 2])):
            fs.append(
                {
                    "pick": r.randint(0, 1 << 30),
                    "kind": r.choice(["fail_before", "fail_after", "fail_output_lost", "torn_efbig", "torn_kill", "torn_kill", "kill_at_op"]),
                    "k": r.choice([0, 0, 1, 1, 2, 3]),
                    "code": r.choice([1, 1, 1, 2, 3, 127, 130, 255]),  # the status a failing step exits with (ninja passes it on)
                    "frac": r.choice([0.0, 0.5, 0.99, round(r.random(), 3)]),
                    "n_fallback": int(2 ** r.uniform(0, 16)),
                    "rules": r.choice([None, None, ["write_font"], ["picosvg"], ["nanoemoji.write_glyphmap"], ["write_bitmap", "pngquant", "zopflipng"], ["write_part_file", "write_combined"], ["write_fea"]]),
                }
            )
        plan["faults"] = fs
    elif kind == "driver":
        k = r.choice(["torn_efbig", "torn_kill", "torn_kill", "fail_before", "kill_at_op", "kill_at_op"])
        plan["driver_fault"] = {"kind": k, "n": int(2 ** r.uniform(0, 15)), "k": r.choice([0, 1, 1, 2, 2, 3, 4, 6])}
    elif kind == "kill":
        plan["kill_after"] = {"edges": r.randint(0, 10), "inflight": r.choice(["torn", "torn", "none", "complete"])}
    return plan


def gen_history(seed, idx, tier, only_step_faults=False):
    r = gen.rng(seed, "c09", idx, "ops")
    rf = gen.rng(seed, "c09", idx, "faults")
    rs = gen.rng(seed, "c09", idx, "sched")
    p = Project(r)
    n0 = r.randint(1, 5)
    dirs = ("src",) if r.random() < 0.7 else ("src", "src/sub", "other")
    for path, content, cps in gen.source_set(gen.rng(seed, "c09", idx, "names"), n0, dirs=dirs, small=p.fmt in gen.BITMAP):
        p.sources[path] = content
        p.cps[path] = cps
    if len({os.path.basename(s) for s in p.sources}) != len(p.sources):
        p.glob = False
    ops = [{"op": "write", "path": s, "content": c} for s, c in sorted(p.sources.items())]
    enabled = [k for k in ("step", "driver", "kill") if rf.random() < 0.7]
    if only_step_faults:
        enabled = ["step"]
    n_inv = r.randint(1, 4)
    n_ops_total = r.randint(1, 6)
    kinds = []
    fresh = gen.rng(seed, "c09", idx, "fresh")
    backdate = r.random() < 0.05

    snapshots = []  # project states as of earlier invocations, for "revert"

    def invoke(label, plan):
        snapshots.append((dict(p.sources), dict(p.cps), dict(p.opts), p.fmt, p.delivery, p.glob))
        cops, argv = p.config_ops_and_argv()
        ops.extend(cops)
        op = {"op": "invoke", "cwd": ".", "argv": argv, "build_dir": "build", "label": label,
              "sched": gen.sched(rs)}
        op.update(plan)
        ops.append(op)

    def user_op():
        choices = ["add", "modify", "modify", "remove", "rename", "option", "option", "delivery", "format", "move_dir"]
        if len(snapshots) >= 1 and r.random() < 0.5:
            choices += ["revert", "revert"]
        if backdate:
            choices += ["rename_onto", "copy_onto"] * 3
        k = r.choice(choices)
        srcs = sorted(p.sources)
        if k == "add" or (k in ("remove", "rename_onto", "copy_onto") and len(srcs) < 2):
            new = gen.source_set(fresh, 1, dirs=dirs, small=p.fmt in gen.BITMAP)[0]
            if new[0] in p.sources or new[2] in p.cps.values() or os.path.basename(new[0]) in {os.path.basename(s) for s in srcs}:
                return None
            back = False
            if r.random() < 0.4 and p.removed:
                back = True
                path = p.removed.pop()  # bring a removed name back
                if path in p.sources:
                    return None
                p.sources[path], p.cps[path] = new[1], p.cps.get(path, new[2])
                if p.cps[path] in [v for kk, v in p.cps.items() if kk != path and kk in p.sources]:
                    del p.sources[path]
                    return None
            else:
                path = new[0]
                p.sources[path], p.cps[path] = new[1], new[2]
            ops.append({"op": "write", "path": path, "content": p.sources[path]})
            return "add-back" if back else "add"
        if k == "move_dir":
            # same base name, other directory (optionally with new content): every intermediate keeps its path
            s_ = r.choice(srcs)
            newdir = r.choice([d for d in ("src", "src/sub", "other", "v2") if d != os.path.dirname(s_)])
            dst = newdir + "/" + os.path.basename(s_)
            if dst in p.sources:
                return None
            if r.random() < 0.5:
                ops.append({"op": "rename", "src": s_, "dst": dst})
                p.sources[dst] = p.sources.pop(s_)
            else:
                c = gen.content(r, small=p.fmt in gen.BITMAP)
                ops.append({"op": "write", "path": dst, "content": c})
                ops.append({"op": "remove", "path": s_})
                del p.sources[s_]
                p.sources[dst] = c
            p.cps[dst] = p.cps[s_]
            p.removed.append(s_)
            p.glob = False
            return "move_dir"
        if k == "revert":
            # put the project back to what an earlier invocation saw (undo of edits; fresh mtimes, as an editor or VCS checkout gives)
            snap = r.choice(snapshots)
            if (snap[0], snap[2], snap[3]) == (p.sources, p.opts, p.fmt):
                return None
            for path in sorted(set(p.sources) - set(snap[0])):
                ops.append({"op": "remove", "path": path})
                p.removed.append(path)
            for path, c in sorted(snap[0].items()):
                if p.sources.get(path) != c:
                    ops.append({"op": "write", "path": path, "content": c})
            p.sources, p.cps, p.opts, p.fmt, p.delivery, p.glob = dict(snap[0]), dict(snap[1]), dict(snap[2]), snap[3], snap[4], snap[5]
            return "revert"
        if k == "modify":
            s = r.choice(srcs)
            c = gen.content(r, small=p.fmt in gen.BITMAP)
            if c == p.sources[s]:
                return None
            p.sources[s] = c
            ops.append({"op": "write", "path": s, "content": c})
            return "modify"
        if k == "remove":
            s = r.choice(srcs)
            del p.sources[s]
            p.removed.append(s)
            ops.append({"op": "remove", "path": s})
            return "remove"
        if k == "rename":
            s = r.choice(srcs)
            new = gen.source_set(fresh, 1, dirs=(os.path.dirname(s),))[0]
            if new[0] in p.sources or new[2] in [p.cps[x] for x in p.sources] or os.path.basename(new[0]) in {os.path.basename(x) for x in srcs}:
                return None
            p.sources[new[0]] = p.sources.pop(s)
            p.cps[new[0]] = new[2]
            p.removed.append(s)
            ops.append({"op": "rename", "src": s, "dst": new[0]})
            return "rename"
        if k in ("rename_onto", "copy_onto"):
            a, b = r.sample(srcs, 2)
            if p.sources[a] == p.sources[b]:
                return None
            p.sources[b] = p.sources[a]
            if k == "rename_onto":
                del p.sources[a]
                p.removed.append(a)
                ops.append({"op": "rename", "src": a, "dst": b})
            else:
                ops.append({"op": "copy_p", "src": a, "dst": b})
            return k
        if k == "option":
            name = r.choice(OPTS_FOR_HISTORY)
            if p.fmt in gen.BITMAP and r.random() < 0.6:
                name = r.choice(["bitmap_resolution", "use_pngquant", "use_zopflipng", "pngquant_flags", "pngquant_flags", "pngquant_flags"])
            v = r.choice(gen.OPTION_VALUES[name])
            if name == "pngquant_flags" and r.random() < 0.5:
                # flip between "pngquant succeeds" and "pngquant gives up (exit 99) and the wrapper falls back to its input"
                giveup = gen.OPTION_VALUES["pngquant_flags"][-1]
                v = gen.OPTION_VALUES["pngquant_flags"][0] if p.opts.get("pngquant_flags") == giveup else giveup
            if name == "descender" and False:
                return None
            if name in p.opts and r.random() < 0.35:
                p.opts.pop(name)  # an option that was given is dropped again -> documented default
                return "option-dropped:" + name
            p.opts[name] = v
            return "option:" + name
        if k == "delivery":
            p.delivery = r.choice(["flags", "toml", "both"])
            p.glob = r.random() < 0.5 and len({os.path.basename(s) for s in p.sources}) == len(p.sources)
            return "delivery"
        if k == "format":
            p.fmt = gen.pick_format(r)
            return "format"
        return None

    # distribute user ops between invocations
    slots = [[] for _ in range(n_inv + 1)]
    for _ in range(n_ops_total):
        slots[r.randint(1, n_inv) if n_inv else 0].append(1)
    for i in range(n_inv):
        plan = _fault_plan(rf, enabled, p.fmt in gen.BITMAP)
        if plan.get("kill_after") is None and rf.random() < 0.08 and p.sources and not only_step_faults:
            s = rf.choice(sorted(p.sources))
            c = gen.content(rf, small=p.fmt in gen.BITMAP)
            p_after = rf.randint(0, 6)
            plan["edits"] = [{"after": p_after, "ops": [{"op": "write", "path": s, "content": c}]}]
            invoke("h%d" % i, plan)
            p.sources[s] = c
            kinds.append("edit-during-build")
        else:
            invoke("h%d" % i, plan)
        for _ in slots[i + 1]:
            for _try in range(4):
                kd = user_op()
                if kd:
                    kinds.append(kd)
                    break
    invoke("final", {})
    ops[-1]["final"] = True
    ops[-1]["sched"] = gen.sched(rs)
    final_argv = ops[-1]["argv"]
    ops.append({"op": "rename", "src": "build", "dst": "build.aside", "keep": True})
    ops.append({"op": "invoke", "cwd": ".", "argv": final_argv, "build_dir": "build", "label": "ref",
                "final": True, "sched": {"j": 1, "policy": "manifest", "seed": 0, "exec_at": "finish"}})
    cid = "c09-%d-%d" % (seed, idx)
    hs = H(seed, "c09", idx, "hashseed") % 4294967296
    job = {"id": cid + ".j0", "root_id": "c09/%d/%d" % (seed, idx), "hashseed": hs,
           "clock_seed": H(seed, "c09", idx, "clock") % (1 << 31),
           "readdir_seed": H(seed, "c09", idx, "readdir") % (1 << 31), "ops": ops}
    return {"id": cid, "jobs": [job], "meta": {"font": p.font_name(), "kinds": kinds, "fmt": p.fmt,
                                               "backdate": backdate, "sweep": False}}


def gen_revert_pattern(seed, idx):
    """build; one edit; an invocation in which a step touched by the edit fails after (partly) writing; the edit is
    undone; final.  The state ninja's log cannot describe (KF-C09-failed-output-trusted) is reached on purpose."""
    r = gen.rng(seed, "c09rv", idx)
    rs = gen.rng(seed, "c09rv", idx, "sched")
    fmt = gen.pick_format(r)
    small = fmt in gen.BITMAP
    items = gen.source_set(gen.rng(seed, "c09rv", idx, "names"), r.randint(2, 4), small=small)
    srcs = {p_: c for p_, c, _ in items}
    opts = {"color_format": fmt, "output_file": "Font" + gen.ext_for(fmt)}
    if small:
        opts["bitmap_resolution"] = 24
    ops = [{"op": "write", "path": p_, "content": c} for p_, c in sorted(srcs.items())]

    def inv(label, srcs_, opts_, plan=None, final=False):
        op = {"op": "invoke", "cwd": ".", "argv": gen.flag_args(opts_) + sorted(srcs_), "build_dir": "build", "label": label, "sched": gen.sched(rs)}
        if plan:
            op.update(plan)
        if final:
            op["final"] = True
        ops.append(op)

    inv("h0", srcs, opts)
    edit = r.choice(["modify", "add", "remove", "option"])
    srcs2, opts2 = dict(srcs), dict(opts)
    undo = []
    if edit == "remove" and len(srcs) < 2:
        edit = "modify"
    if edit == "modify":
        s_ = r.choice(sorted(srcs))
        srcs2[s_] = gen.content(r, small)
        ops.append({"op": "write", "path": s_, "content": srcs2[s_]})
        undo = [{"op": "write", "path": s_, "content": srcs[s_]}]
        rules = ["picosvg", "write_bitmap"] if r.random() < 0.7 else ["write_font"]
    elif edit == "add":
        new = gen.source_set(gen.rng(seed, "c09rv", idx, "new"), 1, small=small)[0]
        if new[0] in srcs or new[2] in [c for _, _, c in items]:
            return None
        srcs2[new[0]] = new[1]
        ops.append({"op": "write", "path": new[0], "content": new[1]})
        undo = [{"op": "remove", "path": new[0]}] if r.random() < 0.5 else []
        rules = r.choice([["nanoemoji.write_glyphmap"], ["write_font"], ["write_fea"], ["write_combined"]])
    elif edit == "remove":
        s_ = r.choice(sorted(srcs))
        del srcs2[s_]
        rules = r.choice([["nanoemoji.write_glyphmap"], ["write_font"], ["write_combined"]])
    else:
        name = r.choice(["upem", "family", "keep_glyph_names", "clip_to_viewbox", "reuse_tolerance", "width"])
        opts2[name] = r.choice(gen.OPTION_VALUES[name][1:])
        rules = ["write_font"] if name not in ("clip_to_viewbox", "reuse_tolerance") else ["picosvg", "write_part_file"]
    kind = r.choice(["fail_after", "fail_after", "torn_kill", "torn_efbig"])
    inv("h1", srcs2, opts2, {"faults": [{"pick": r.randint(0, 1 << 30), "kind": kind, "frac": r.choice([0.3, 0.7, 0.95]), "n_fallback": 200, "rules": rules}]})
    ops.extend(undo)
    inv("final", srcs, opts, final=True)
    ops.append({"op": "rename", "src": "build", "dst": "build.aside", "keep": True})
    ops.append({"op": "invoke", "cwd": ".", "argv": gen.flag_args(opts) + sorted(srcs), "build_dir": "build", "label": "ref", "final": True,
                "sched": {"j": 1, "policy": "manifest", "seed": 0, "exec_at": "finish"}})
    cid = "c09-%d-rv%d" % (seed, idx)
    job = {"id": cid + ".j0", "root_id": "c09/%d/rv%d" % (seed, idx), "hashseed": H(seed, "c09rv", idx, "hs") % 4294967296,
           "clock_seed": H(seed, "c09rv", idx, "clock") % (1 << 31), "readdir_seed": H(seed, "c09rv", idx, "rd") % (1 << 31), "ops": ops}
    return {"id": cid, "jobs": [job], "meta": {"font": opts["output_file"], "kinds": ["revert-pattern", edit], "fmt": fmt, "backdate": False, "sweep": False}}


def gen_bitmap_pipeline_history(seed, idx):
    """a walk through the states of the bitmap pipeline on one build directory: pngquant succeeding / giving up
    (exit 98/99 -> the wrapper falls back to its input), zopflipng on / off, flat / gradient artwork, resolution.
    Mostly fault-free: the point is the wrapper's fallback path meeting what earlier invocations left behind."""
    r = gen.rng(seed, "c09bp", idx)
    rs = gen.rng(seed, "c09bp", idx, "sched")
    rf = gen.rng(seed, "c09bp", idx, "faults")
    fmt = r.choice(["cbdt", "sbix"])
    flat = ["corpus:rect.svg", "corpus:rect2.svg", "corpus:one_rect.svg", "corpus:circle.svg"]
    # renderings with more than 256 colours at 96-128 px: pngquant --quality 100-100 gives up on these (exit 99)
    grad = ["corpus:radial_gradient_rect.svg", "corpus:one-o-clock.svg", "corpus:two-o-clock.svg", "corpus:radial_gradient_rect.svg"]
    names = ["src/emoji_u%04x.svg" % c for c in r.sample(range(0x41, 0x5B), r.randint(1, 3))]
    state = {"out": "Font.ttf", "flags": "default", "zopfli": True, "pngquant": True, "res": r.choice([128, 128, 128, 96]),  # small renderings have < 256 colours: pngquant never gives up on them
             "content": {n: r.choice(flat + grad) for n in names}}
    FLAGS = {"default": None, "giveup": "--speed 3 --quality 100-100", "lossy": "--speed 10 --quality 40-60"}
    ops = [{"op": "write", "path": n, "content": c} for n, c in sorted(state["content"].items())]
    kinds = ["bitmap-pipeline"]
    two_fonts = gen.rng(seed, "c09bp", idx, "two-fonts").random() < 0.4
    rb = gen.rng(seed, "c09bp", idx, "renderer")
    saved = {}

    def argv():
        o = {"color_format": fmt, "output_file": state["out"], "bitmap_resolution": state["res"]}
        if FLAGS[state["flags"]]:
            o["pngquant_flags"] = FLAGS[state["flags"]]
        if not state["zopfli"]:
            o["use_zopflipng"] = False
        if not state["pngquant"]:
            o["use_pngquant"] = False
        return gen.flag_args(o) + sorted(state["content"])

    def step():
        k = r.choice(["flags", "flags", "flags", "zopfli", "zopfli", "zopfli", "content", "content", "pngquant", "res"])
        if two_fonts and r.random() < 0.5:
            # the other font of the two that take turns in this build directory (same sources, other options): whatever
            # bookkeeping is kept per font, the intermediates are shared
            saved[state["out"]] = {f: state[f] for f in ("flags", "zopfli", "pngquant", "res")}
            state["out"] = "Other.ttf" if state["out"] == "Font.ttf" else "Font.ttf"
            kinds.append("out")
            if state["out"] in saved:  # each font keeps its own options (two configuration files built in turn)
                state.update(saved[state["out"]])
                return
            if r.random() < 0.6:
                k = "res"  # the second font is, more often than not, the same artwork at another size
        if k == "flags":
            state["flags"] = r.choice([f for f in FLAGS if f != state["flags"]])
        elif k == "zopfli":
            state["zopfli"] = not state["zopfli"]
        elif k == "pngquant":
            state["pngquant"] = not state["pngquant"]
        elif k == "res":
            state["res"] = r.choice([x for x in (96, 128) if x != state["res"]])
        else:
            n = r.choice(sorted(state["content"]))
            c = r.choice([x for x in flat + grad if x != state["content"][n]])
            state["content"][n] = c
            ops.append({"op": "write", "path": n, "content": c})
        kinds.append(k)

    n_inv = r.randint(2, 4)
    for i in range(n_inv):
        plan = {}
        if rf.random() < 0.2:
            plan = _fault_plan(rf, ["step"], True)
        if i > 0 and not plan and rb.random() < 0.3:
            # the renderer itself fails (whatever the rule's shell makes of that) where an earlier rendering is still around;
            # fires only if this invocation has a bitmap to render
            plan = {"faults": [{"pick": rb.randint(0, 1 << 30), "kind": "inner_fail", "rules": ["write_bitmap"], "code": rb.choice([1, 2, 35, 139]),
                                "mode": rb.choice(["no_output", "partial"]), "signal": rb.choice([None, None, 9, 11])}]}
        op = {"op": "invoke", "cwd": ".", "argv": argv(), "build_dir": "build", "label": "h%d" % i, "sched": gen.sched(rs)}
        op.update(plan)
        ops.append(op)
        for _ in range(r.choice([1, 1, 2])):
            step()
    final = argv()
    ops.append({"op": "invoke", "cwd": ".", "argv": final, "build_dir": "build", "label": "final", "sched": gen.sched(rs), "final": True})
    ops.append({"op": "rename", "src": "build", "dst": "build.aside", "keep": True})
    ops.append({"op": "invoke", "cwd": ".", "argv": final, "build_dir": "build", "label": "ref", "final": True,
                "sched": {"j": 1, "policy": "manifest", "seed": 0, "exec_at": "finish"}})
    cid = "c09-%d-bp%d" % (seed, idx)
    job = {"id": cid + ".j0", "root_id": "c09/%d/bp%d" % (seed, idx), "hashseed": H(seed, "c09bp", idx, "hs") % 4294967296,
           "clock_seed": H(seed, "c09bp", idx, "clock") % (1 << 31), "readdir_seed": H(seed, "c09bp", idx, "rd") % (1 << 31), "ops": ops}
    return {"id": cid, "jobs": [job], "meta": {"font": state["out"], "kinds": kinds, "fmt": fmt, "backdate": False, "sweep": False}}


def gen_vf_history(seed, idx):
    """a history on a two-master variable font project (UFO directories as intermediate outputs)"""
    r = gen.rng(seed, "c09vf", idx, "ops")
    rf = gen.rng(seed, "c09vf", idx, "faults")
    rs = gen.rng(seed, "c09vf", idx, "sched")
    fmt = r.choice(["glyf_colr_1", "glyf_colr_0", "glyf"])
    names = ["emoji_u%04x.svg" % c for c in r.sample(range(0x61, 0x7B), r.randint(1, 3))]
    design = {}  # path -> content; the two corpus files interpolate with each other
    for n in names:
        design["thin/" + n] = "corpus:vf/thin61.svg"
        design["bold/" + n] = "corpus:vf/bold61.svg"
    opts = {"output_file": "Font.ttf", "color_format": fmt}
    ops = [{"op": "write", "path": p_, "content": c} for p_, c in sorted(design.items())]
    enabled = [k for k in ("step", "driver", "kill") if rf.random() < 0.7]
    kinds = ["vf"]
    state = {"glob": r.random() < 0.5}

    def toml():
        ms = {}
        for m, w_ in (("thin", 300), ("bold", 700)):
            srcs = [m + "/*.svg"] if state["glob"] else sorted(p_ for p_ in design if p_.startswith(m + "/"))
            ms[m] = {"style_name": m.title(), "srcs": srcs, "position": {"wght": w_}}
        return gen.toml_config(opts, None, masters=ms, axes={"wght": ("Weight", 300)})

    def invoke(label, plan):
        ops.append({"op": "write", "path": "config.toml", "content": "text:" + toml()})
        op = {"op": "invoke", "cwd": ".", "argv": ["config.toml"], "build_dir": "build", "label": label, "sched": gen.sched(rs)}
        op.update(plan)
        ops.append(op)

    n_inv = r.randint(1, 3)
    for i in range(n_inv):
        invoke("h%d" % i, _fault_plan(rf, enabled))
        for _ in range(r.randint(0, 2)):
            k = r.choice(["swap", "swap", "add", "remove", "option", "format", "glob"])
            if k == "swap":
                p_ = r.choice(sorted(design))
                design[p_] = "corpus:vf/bold61.svg" if design[p_].endswith("thin61.svg") else "corpus:vf/thin61.svg"
                ops.append({"op": "write", "path": p_, "content": design[p_]})
            elif k == "add":
                n = "emoji_u%04x.svg" % r.choice(range(0x41, 0x5B))
                if "thin/" + n in design:
                    continue
                for m, c in (("thin", "corpus:vf/thin61.svg"), ("bold", "corpus:vf/bold61.svg")):
                    design[m + "/" + n] = c
                    ops.append({"op": "write", "path": m + "/" + n, "content": c})
            elif k == "remove":
                ns = sorted({os.path.basename(p_) for p_ in design})
                if len(ns) < 2:
                    continue
                n = r.choice(ns)
                for m in ("thin", "bold"):
                    del design[m + "/" + n]
                    ops.append({"op": "remove", "path": m + "/" + n})
            elif k == "option":
                name = r.choice(["family", "version_major", "keep_glyph_names", "upem", "width", "linegap"])
                opts[name] = r.choice(gen.OPTION_VALUES[name])
            elif k == "format":
                opts["color_format"] = r.choice(["glyf_colr_1", "glyf_colr_0", "glyf"])
            else:
                state["glob"] = not state["glob"]
            kinds.append(k)
    invoke("final", {})
    ops[-1]["final"] = True
    ops.append({"op": "rename", "src": "build", "dst": "build.aside", "keep": True})
    ops.append({"op": "invoke", "cwd": ".", "argv": ["config.toml"], "build_dir": "build", "label": "ref", "final": True,
                "sched": {"j": 1, "policy": "manifest", "seed": 0, "exec_at": "finish"}})
    cid = "c09-%d-vf%d" % (seed, idx)
    job = {"id": cid + ".j0", "root_id": "c09/%d/vf%d" % (seed, idx), "hashseed": H(seed, "c09vf", idx, "hs") % 4294967296,
           "clock_seed": H(seed, "c09vf", idx, "clock") % (1 << 31), "readdir_seed": H(seed, "c09vf", idx, "rd") % (1 << 31), "ops": ops}
    return {"id": cid, "jobs": [job], "meta": {"font": "Font.ttf", "kinds": kinds, "fmt": opts["color_format"], "backdate": False, "sweep": False}}


# ---------------------------------------------------------------------------
# single-fault sweep (thorough): every dirty edge x every fault kind, once
# ---------------------------------------------------------------------------

SWEEP_FORMATS = ["glyf_colr_1", "picosvg", "untouchedsvg", "cbdt", "sbix", "cff2_colr_1", "glyf"]


def sweep_bases(seed, scale):
    n = max(1, int(round(7 * min(scale, 1.0))))
    return SWEEP_FORMATS[:n]


def sweep_base_ops(fmt):
    srcs = {
        "src/emoji_u41.svg": "corpus:rect.svg",
        "src/emoji_u1f600.svg": "corpus:reused_shape.svg",
        "src/emoji_u1f469_200d_1f91d.svg": "corpus:linear_gradient_rect.svg",
    }
    opts = {"color_format": fmt, "output_file": "Font" + gen.ext_for(fmt)}
    if fmt in gen.BITMAP:
        opts["bitmap_resolution"] = 24
    argv = gen.flag_args(opts) + sorted(srcs)
    ops = [{"op": "write", "path": s, "content": c} for s, c in sorted(srcs.items())]
    ops.append({"op": "invoke", "cwd": ".", "argv": argv, "build_dir": "build", "label": "h0", "keep": True,
                "sched": {"j": 1, "policy": "manifest", "seed": 0, "exec_at": "finish"}})
    # pending change that dirties most of the graph: every source modified + one option changed
    for s in sorted(srcs):
        ops.append({"op": "write", "path": s, "content": "corpus:rect2.svg" if "41" in s else {"kind": "rects", "n": 2, "seed": len(s)}, "keep": True})
    opts2 = dict(opts)
    opts2["upem"] = 2048
    argv2 = gen.flag_args(opts2) + sorted(srcs)
    return ops, argv2, "Font" + gen.ext_for(fmt)


def sweep_cases(seed, scale, mini=False):
    """needs the edge list of each base state: obtained by a probe run.
    mini (quick tier): one base state, chosen by the seed, and a reduced fault set"""
    cases = []
    probes = []
    bases = [SWEEP_FORMATS[seed % len(SWEEP_FORMATS)]] if mini else sweep_bases(seed, scale)
    for fmt in bases:
        ops, argv2, font = sweep_base_ops(fmt)
        ops = ops + [{"op": "invoke", "cwd": ".", "argv": argv2, "build_dir": "build", "label": "probe",
                      "sched": {"j": 1, "policy": "manifest", "seed": 0, "exec_at": "finish"}}]
        probes.append({"id": "c09-sweep-probe-" + fmt, "root_id": "c09/sweep/probe-" + fmt, "hashseed": 0,
                       "keep_trace": False, "ops": ops})
    res = orch.run_jobs(probes, tag="probe")
    for fmt in bases:
        r = res["c09-sweep-probe-" + fmt]
        inv = orch.invokes(r)[-1]
        steps = [s for s in inv["ninja"][0]["steps"] if "out" in s]
        sizes = {}
        for s in steps:
            for wpath in s["writes"]:
                if wpath.endswith(s["out"]):
                    sizes[s["out"]] = None
        listing = inv["listing"]
        toml_size = None
        plans = []
        for s in steps:
            out = s["out"]
            if not mini:
                plans.append({"faults": [{"edge": out, "kind": "fail_before"}]})
            plans.append({"faults": [{"edge": out, "kind": "fail_after"}]})
            plans.append({"faults": [{"edge": out, "kind": "fail_output_lost"}]})
            for kind in (("torn_kill",) if mini else ("torn_efbig", "torn_kill")):
                for frac in ((0.5,) if mini else (0.0, 0.5, 1.0)):
                    plans.append({"faults": [{"edge": out, "kind": kind, "frac": frac, "n_fallback": 10, "_sweep_frac": frac}]})
        for kind in (("torn_kill",) if mini else ("torn_efbig", "torn_kill")):
            for n in ((300, 2500) if mini else (0, 300, 1200, 2500, 6000)):
                plans.append({"driver_fault": {"kind": kind, "n": n}})
        plans.append({"driver_fault": {"kind": "fail_before", "n": 0}})
        for k in ((1, 2) if mini else range(0, 6)):  # the driver dies just before its k-th write / rename / remove
            plans.append({"driver_fault": {"kind": "kill_at_op", "k": k, "n": 0}})
        if not mini:
            for s in steps:
                for k in (0, 1):
                    plans.append({"faults": [{"edge": s["out"], "kind": "kill_at_op", "k": k}]})
        for k in range(0, len(steps) + 1, 4 if mini else 2):
            plans.append({"kill_after": {"edges": k, "inflight": "torn"}})
        for pi, plan in enumerate(plans):
            ops, argv2, font = sweep_base_ops(fmt)
            op = {"op": "invoke", "cwd": ".", "argv": argv2, "build_dir": "build", "label": "h1",
                  "sched": {"j": 2, "policy": "manifest", "seed": 0, "exec_at": "finish"}}
            for f in plan.get("faults", []):
                if f.get("frac") == 1.0:
                    f["frac"] = 0.999999
                f.pop("_sweep_frac", None)
            op.update(plan)
            ops.append(op)
            ops.append({"op": "invoke", "cwd": ".", "argv": argv2, "build_dir": "build", "label": "final", "final": True,
                        "sched": {"j": 3, "policy": "uniform", "seed": pi, "exec_at": "finish"}})
            ops.append({"op": "rename", "src": "build", "dst": "build.aside", "keep": True})
            ops.append({"op": "invoke", "cwd": ".", "argv": argv2, "build_dir": "build", "label": "ref", "final": True,
                        "sched": {"j": 1, "policy": "manifest", "seed": 0, "exec_at": "finish"}})
            cid = "c09-sweep-%s-%d" % (fmt, pi)
            cases.append({"id": cid, "jobs": [{"id": cid + ".j0", "root_id": "c09/sweep/%s-%d" % (fmt, pi), "hashseed": 0,
                                                "clock_seed": pi, "readdir_seed": 0, "keep_trace": False, "ops": ops}],
                          "meta": {"font": font, "kinds": ["sweep"], "fmt": fmt, "backdate": False, "sweep": True}})
    return cases


def _isolate_reference(cases):
    """the reference is a clean build in a clean environment: files that earlier invocations left outside the build
    directory are removed first, and it gets a HOME and a TMPDIR of its own (caches there must not carry over)"""
    for c in cases:
        ops = c["jobs"][0]["ops"]
        for i, op in enumerate(ops):
            if op["op"] == "invoke" and op.get("label") == "ref":
                env = dict(op.get("env") or {})
                env.update({"HOME": "$SIDE/home-ref", "TMPDIR": "$SIDE/tmp-ref"})
                op["env"] = env
                ops.insert(i, {"op": "purge_strays", "keep_dirs": ["build.aside"], "keep": True})
                break


def gen_cases(seed, tier, scale=1.0):
    n = int((220 if tier == "quick" else 6000) * scale)
    cases = [gen_history(seed, i, tier) for i in range(n)]
    cases += [gen_vf_history(seed, i) for i in range(max(1, n // 12))]
    cases += [c for c in (gen_revert_pattern(seed, i) for i in range(max(1, n // 15))) if c is not None]
    cases += [gen_bitmap_pipeline_history(seed, i) for i in range(max(1, n // 10))]
    for c in cases:
        c["jobs"][0]["keep_trace"] = False
    _isolate_reference(cases)
    if tier == "thorough":
        extra = sweep_cases(seed, scale)
    elif scale >= 1.0:
        extra = sweep_cases(seed, scale, mini=True)
    else:
        extra = []
    _isolate_reference(extra)
    cases += extra
    return cases


def _by_label(res):
    out = {}
    for r in orch.invokes(res):
        out[r.get("label")] = r
    return out


def _first_divergence(a, b):
    """the most upstream file that differs: intermediates in sub-directories first, then top-level ones, fonts last"""
    diff = [k for k in sorted(set(a) | set(b)) if not (k.endswith(".rsp") or k == "build.ninja") and a.get(k) != b.get(k)]
    rank = lambda k: (0 if "/" in k else (2 if k.rsplit(".", 1)[-1] in ("ttf", "otf") else 1), k)
    return min(diff, key=rank) if diff else None


def judge(case, results):
    res = results[0]
    invs = orch.invokes(res)
    lab = _by_label(res)
    out = []
    final, ref = lab.get("final"), lab.get("ref")
    # (2) failure is loud + monitors, every invocation
    for r in invs:
        fired = bool(r.get("driver_fault_fired")) or bool(r.get("killed")) or any(
            s.get("fired") for n in r.get("ninja", []) for s in n["steps"] if "out" in s)
        step_failed = False
        for n in r.get("ninja", []):
            if n["rc"] != 0:
                step_failed = True
            for s in n["steps"]:
                if "out" in s and s["status"] != ["exit", 0]:
                    step_failed = True
            for a in n.get("anomalies", []):
                if a["k"] == "hb.unordered_access":
                    out.append({"class": a["k"], "detail": {"edge": a.get("edge"), "path": a.get("path"),
                                                            "owner": a.get("owner"), "rule": a.get("rule"), "label": r.get("label")}})
        if (fired or step_failed) and r["rc"] == 0:
            out.append({"class": "silent-failure", "detail": {"label": r.get("label"), "driver_fault": r.get("driver_fault"),
                                                              "failed_steps": [s["out"] for n in r["ninja"] for s in n["steps"] if "out" in s and s["status"] != ["exit", 0]]}})
    if final is None or ref is None:
        return out
    font = case["meta"]["font"]
    if final["rc"] != 0 and ref["rc"] != 0:
        out.append({"class": "discard", "detail": {"tail": (ref.get("steps_tail") or ref.get("driver_tail") or "")[-500:]}})
        return out
    stale = [a for n in final.get("ninja", []) for a in n.get("anomalies", []) if a["k"] == "stale.clean_but_changed"]
    trusted = [a for n in final.get("ninja", []) for a in n.get("anomalies", []) if a["k"] == "stale.failed_output_trusted"]
    trusted_edges = {a["edge"] for a in trusted}
    causes = {"leaf-input-backdated" if (a["leaf"] and a["backdated"] and a["declared"]) else
              ("undeclared-input" if not a["declared"] else "other") for a in stale if a["edge"] not in trusted_edges}
    if trusted:
        causes.add("failed-edge-output-trusted" if all(a.get("explained_by_log_of_last_success") for a in trusted)
                   else "failed-edge-output-trusted-although-log-said-dirty")
    causes = sorted(causes)
    cause = causes[0] if len(causes) == 1 else ("none" if not causes else "mixed:" + "+".join(causes))
    if (final["rc"] == 0) != (ref["rc"] == 0):
        out.append({"class": "convergence.exit-status", "detail": {"final_rc": final["rc"], "ref_rc": ref["rc"], "cause": cause,
                                                                   "error": [n.get("error") for n in final.get("ninja", [])],
                                                                   "tail": (final.get("steps_tail") or final.get("driver_tail") or "")[-600:]}})
        return out
    fa, fb = final["listing"].get(font), ref["listing"].get(font)
    if fa != fb or fa is None:
        out.append({"class": "convergence.font-differs", "detail": {
            "font": font, "final": fa, "ref": fb, "cause": cause,
            "first_diverging_file": _first_divergence(final["listing"], ref["listing"]),
            "stale": [{k: a[k] for k in ("edge", "path", "leaf", "declared", "backdated")} for a in stale][:4],
            "trusted_failed_outputs": sorted(trusted_edges)[:4]}})
    return out


def signature(case, results):
    invs = orch.invokes(results[0])
    if len(invs) < 3:
        return None
    prior = [r for r in invs if r.get("label") not in ("final", "ref")]
    if not any(r.get("ninja") or r.get("driver_fault_fired") for r in prior):
        return None
    sig = [tuple(k.split(":")[0] for k in case["meta"]["kinds"])]
    for r in invs:
        rv = set()
        fired = set()
        for n in r.get("ninja", []):
            for s in n["steps"]:
                if "out" in s:
                    rv.add((s["rule"], s["reason"]))
                    if s.get("fired"):
                        fired.add(s["fault"]["kind"])
        if r.get("driver_fault_fired"):
            fired.add("driver")
        if r.get("killed"):
            fired.add("killed")
        sig.append((tuple(sorted(rv)), tuple(sorted(fired))))
    return hashlib.sha1(repr(sig).encode()).hexdigest()


def describe(case):
    ops = []
    for op in case["jobs"][0]["ops"]:
        d = {k: v for k, v in op.items() if k in ("op", "path", "src", "dst", "label", "faults", "driver_fault", "kill_after", "edits")}
        if op["op"] == "invoke":
            d["argv"] = op["argv"]
            d["sched"] = op.get("sched")
        elif "content" in op:
            d["content"] = op["content"] if len(str(op["content"])) < 80 else str(op["content"])[:77] + "..."
        ops.append(d)
    return {"id": case["id"], "format": case["meta"]["fmt"], "ops": ops}


def extra_coverage(cases, results):
    probes = {"option_dropped_again": 0, "removed_name_brought_back": 0, "reverts": 0, "moved_to_other_directory": 0, "histories_with_backdating": 0,
              "final_rebuilt_nothing_but_font": 0, "torn_planned_not_fired": 0, "sweep_cases": 0, "failed_output_trusted_states": 0,
              "variable_font_histories": 0, "pngquant_gave_up_and_input_was_reused": 0, "bitmap_pipeline_histories": 0, "stray_files_outside_build_dir": 0}
    for c in cases:
        ks = c["meta"]["kinds"]
        probes["option_dropped_again"] += sum(1 for k in ks if k.startswith("option-dropped"))
        probes["removed_name_brought_back"] += ks.count("add-back")
        probes["reverts"] += ks.count("revert")
        probes["moved_to_other_directory"] += ks.count("move_dir")
        probes["variable_font_histories"] += 1 if ks[:1] == ["vf"] else 0
        probes["bitmap_pipeline_histories"] += 1 if ks[:1] == ["bitmap-pipeline"] else 0
        if c["meta"]["backdate"]:
            probes["histories_with_backdating"] += 1
        if c["meta"]["sweep"]:
            probes["sweep_cases"] += 1
        lab = _by_label(results[c["id"]][0])
        f = lab.get("final")
        if f and f.get("ninja"):
            st = [s for s in f["ninja"][0]["steps"] if "out" in s]
            if len(st) == 1:
                probes["final_rebuilt_nothing_but_font"] += 1
        for ev in results[c["id"]][0]["events"]:
            if ev["op"] == "purge_strays":
                probes["stray_files_outside_build_dir"] += len(ev.get("strays") or [])
        for r in orch.invokes(results[c["id"]][0]):
            probes["pngquant_gave_up_and_input_was_reused"] += r.get("pngquant_giveups", 0)
            for n in r.get("ninja", []):
                if any(a["k"] == "stale.failed_output_trusted" for a in n.get("anomalies", [])):
                    probes["failed_output_trusted_states"] += 1
                for s in n["steps"]:
                    if "out" in s and s.get("fault") and s["fault"]["kind"].startswith("torn") and s["status"] == ["exit", 0]:
                        probes["torn_planned_not_fired"] += 1
    return {"probes": probes, "single_fault_sweep": {"exhaustive_over": "every dirty edge x {fail_before, fail_after, torn EFBIG/SIGXFSZ at 0, half, size-1, killed before its 1st/2nd file-system mutation} + driver torn at 5 offsets / killed before each of its first 6 mutations / never started + invocation killed after every 2nd edge, for the base states of sweep_bases() (quick: reduced set, one base state)", "cases": probes["sweep_cases"]}}


def selfcheck(tier, seed):
    """stub validation: the same histories through the real ninja (see checks/stub_validation.py)"""
    from checks import stub_validation

    total, dis = stub_validation.run(6 if tier == "quick" else 60, seed)
    if dis:
        raise orch.HarnessError("stub validation: SimNinja and the real ninja disagree: %s" % json.dumps(dis[:3])[:3000])
    return total


if __name__ == "__main__":
    from checks import common

    sys.exit(common.main(sys.modules[__name__]))

"""Determinism self-test of the harness: the same cases, executed twice in
different worker processes with different sharding (worker counts 16 and 5),
must give identical event-log fingerprints.  A mismatch is a harness error.
usage: python -m checks.selftest_determinism [--n 30] [--seeds 3,4]"""
import argparse, importlib, json, os, sys, time
sys.path.insert(0, os.path.dirname(os.path.dirname(os.path.abspath(__file__))))
from sim import orch

def main():
    ap = argparse.ArgumentParser()
    ap.add_argument("--n", type=int, default=30)
    ap.add_argument("--seeds", default="3,4")
    ap.add_argument("--checks", default="c08,c09,c10,c17,c20")
    a = ap.parse_args()
    total, bad = 0, []
    t0 = time.time()
    for name in a.checks.split(","):
        mod = importlib.import_module("checks." + name)
        for seed in [int(x) for x in a.seeds.split(",")]:
            cases = mod.gen_cases(seed, "quick", 1.0)
            cases = sorted(cases, key=lambda c: orch.H("selftest", c["id"]))[: a.n]
            r1 = orch.run_cases(cases, tag="det-a", nproc=16)
            r2 = orch.run_cases(list(reversed(cases)), tag="det-b", nproc=5)
            for c in cases:
                total += 1
                f1 = [r["fingerprint"] for r in r1[c["id"]]]
                f2 = [r["fingerprint"] for r in r2[c["id"]]]
                if f1 != f2:
                    bad.append(c["id"])
            print("%s seed %d: %d cases compared, %d mismatches so far" % (name, seed, len(cases), len(bad)), flush=True)
    orch.cleanup()
    print(json.dumps({"cases": total, "mismatches": bad, "wall_s": round(time.time() - t0, 1)}))
    if bad:
        print("HARNESS-ERROR determinism self-test: %d case(s) differ between two executions: %s" % (len(bad), bad[:10]))
        return 2
    return 0

if __name__ == "__main__":
    sys.exit(main())

"""Stub validation: keep SimNinja honest.

A sample of generated histories (fault-free, and with step faults fail_before /
fail_after / torn output) is executed twice at the SAME path: once in the
simulator, once with the real console script and the real `ninja -j1`, real
clock, faults injected from outside (PATH wrappers for picosvg/resvg, a
sitecustomize for the python -m steps).  After every invocation the exit status
class must agree; whenever both sides were in sync before an invocation (empty
directory, or after an invocation that succeeded on both sides) the set of files
the invocation (re)wrote must agree -- that is ninja's dirtiness decision --
and after an invocation that succeeds on both sides every file of the build
directory must be byte-identical.  A disagreement is a HARNESS error: the stub
misrepresents ninja and nothing the simulator said is believed.

usage: python -m checks.stub_validation [--n 40] [--seed S]
"""
import argparse
import hashlib
import json
import os
import shlex
import shutil
import subprocess
import sys
import time

sys.path.insert(0, os.path.dirname(os.path.dirname(os.path.abspath(__file__))))
from sim import orch, world as W  # noqa: E402
from checks import c09  # noqa: E402

REAL_BIN = os.path.join(orch.VERIF, "sim", "real", "bin")
REAL_SITE = os.path.join(orch.VERIF, "sim", "real", "site")
IGNORE = (".ninja_log", ".ninja_deps", ".ninja_lock", ".simninja_log")


def _walk(d):
    out = {}
    if not os.path.isdir(d):
        return out
    for dp, dns, fns in os.walk(d):
        for f in fns:
            if f in IGNORE:
                continue
            p = os.path.join(dp, f)
            st = os.stat(p)
            with open(p, "rb") as fh:
                out[os.path.relpath(p, d)] = (st.st_mtime_ns, hashlib.sha256(fh.read()).hexdigest())
    return out


def real_replay(job, sim_result):
    """apply the job's ops with real tools at the same root; returns per-invocation observations"""
    base = os.path.join(W.scratch_base(), job["root_id"])
    shutil.rmtree(base, ignore_errors=True)
    root = os.path.join(base, "w")
    os.makedirs(root)
    sim_invs = orch.invokes(sim_result)
    obs = []
    k = 0

    def absp(p):
        return os.path.normpath(os.path.join(root, p))

    try:
        for op in job["ops"]:
            time.sleep(0.02)  # real timestamps must be strictly ordered between operations (tmpfs stamps come from the coarse clock)
            kind = op["op"]
            if kind == "write":
                p = absp(op["path"])
                os.makedirs(os.path.dirname(p), exist_ok=True)
                data = W.content_bytes(op["content"])
                if isinstance(op["content"], str) and op["content"].startswith("text:"):
                    data = data.replace(b"$ROOT", root.encode())
                with open(p, "wb") as f:
                    f.write(data)
            elif kind == "remove":
                p = absp(op["path"])
                if os.path.isdir(p):
                    shutil.rmtree(p)
                elif os.path.lexists(p):
                    os.unlink(p)
            elif kind == "rename":
                if os.path.lexists(absp(op["src"])):
                    os.makedirs(os.path.dirname(absp(op["dst"])), exist_ok=True)
                    os.rename(absp(op["src"]), absp(op["dst"]))
            elif kind == "copy_p":
                if os.path.isfile(absp(op["src"])):
                    st = os.stat(absp(op["src"]))
                    shutil.copyfile(absp(op["src"]), absp(op["dst"]))
                    os.utime(absp(op["dst"]), ns=(st.st_mtime_ns, st.st_mtime_ns))
            elif kind == "mkdir":
                os.makedirs(absp(op["path"]), exist_ok=True)
            elif kind == "invoke":
                si = sim_invs[k]
                k += 1
                faults = []
                for n in si.get("ninja", []):
                    steps = {s["out"]: s for s in n["steps"] if "out" in s}
                    for f in n.get("faults", []):
                        f = f.get("resolved")
                        if not f:
                            continue
                        st = steps.get(f["edge"])
                        if st is None or "cmd" not in st:
                            # the faulted edge never ran in the simulation (build stopped earlier); it may run in the
                            # real order, so give the wrapper what it needs anyway -- we cannot: mark as unknown
                            continue
                        faults.append({"argv": shlex.split(st["cmd"]), "kind": f["kind"], "n": f.get("n", 0), "out": f["edge"]})
                unknown = any(f.get("resolved") and f["resolved"]["edge"] not in {s["out"] for n2 in si.get("ninja", []) for s in n2["steps"] if "out" in s}
                              for n in si.get("ninja", []) for f in n.get("faults", []))
                cwd = absp(op.get("cwd", "."))
                bdir = os.path.normpath(os.path.join(cwd, op.get("build_dir", "build")))
                before = _walk(bdir)
                side = os.path.join(base, "side-real")
                os.makedirs(os.path.join(side, "tmp"), exist_ok=True)
                os.makedirs(os.path.join(side, "home"), exist_ok=True)
                env = {"PATH": REAL_BIN + ":/venv/bin:/usr/bin:/bin", "SOURCE_DATE_EPOCH": W.SOURCE_DATE_EPOCH,
                       "HOME": os.path.join(side, "home"), "TMPDIR": os.path.join(side, "tmp"),  # like the simulated world: its own scratch and home
                       "LANG": "C.UTF-8", "LC_ALL": "C.UTF-8", "PYTHONDONTWRITEBYTECODE": "1", "PYTHONHASHSEED": str(job.get("hashseed", 0)),
                       "PYTHONPATH": REAL_SITE, "NSIM_REAL_FAULTS": json.dumps(faults)}
                for k_, v_ in (op.get("env") or {}).items():
                    env[k_] = v_.replace("$ROOT", root).replace("$SIDE", side)
                    if k_ in ("HOME", "TMPDIR"):
                        os.makedirs(env[k_], exist_ok=True)
                if os.environ.get("NANOEMOJI_SRC"):  # a patched scratch copy of the sources is under test
                    env["PYTHONPATH"] = os.environ["NANOEMOJI_SRC"] + ":" + REAL_SITE
                p = subprocess.run(["/venv/bin/nanoemoji"] + [a.replace("$ROOT", root) for a in op["argv"]], cwd=cwd, env=env,
                                   stdout=subprocess.PIPE, stderr=subprocess.STDOUT, timeout=600)
                after = _walk(bdir)
                modified = sorted(f for f in after if f not in before or before[f][0] != after[f][0])
                text = p.stdout.decode(errors="replace")
                obs.append({"rc": p.returncode, "ninja_failed": ("ninja: build stopped" in text or "FAILED: " in text or "ninja: error" in text),
                            "modified": modified, "digests": {f: v[1] for f, v in after.items()},
                            "unknown_fault": unknown, "tail": p.stdout.decode(errors="replace")[-1500:]})
    finally:
        shutil.rmtree(base, ignore_errors=True)
    return obs


def sim_modified(inv):
    mod = set(inv.get("driver_writes_rel", []))
    for n in inv.get("ninja", []):
        bd = n["bdir"]
        for s in n["steps"]:
            gone = set(s.get("transient", []))
            for wpath in s.get("writes", []):
                if wpath in gone:
                    continue  # scratch files that no longer exist cannot show up in a before/after comparison
                if wpath.startswith(bd + "/"):
                    mod.add(wpath[len(bd) + 1:])
    return mod


def compare(case, sim_result, obs):
    """returns (list of disagreements, stats)"""
    dis = []
    stats = {"invocations": 0, "dirtiness_sets_compared": 0, "full_state_compared": 0, "failing_invocations": 0, "edges_rerun_compared": 0, "skipped_after_desync": 0}
    invs = orch.invokes(sim_result)
    sync = True
    for i, (si, ro) in enumerate(zip(invs, obs)):
        stats["invocations"] += 1
        # "succeeded" means the build ran to completion, whatever the driver then reports (a driver that swallows
        # ninja's failure is the checks' business, not the stub validation's)
        s_ok = si["rc"] == 0 and all(n["rc"] == 0 for n in si.get("ninja", []))
        r_ok = ro["rc"] == 0 and not ro["ninja_failed"]
        if ro["unknown_fault"]:
            sync = False
            continue
        has_faults = any(f.get("resolved") for n in si.get("ninja", []) for f in n.get("faults", []))
        if s_ok != r_ok and has_faults and not sync:
            # the fault was placed on an edge that is dirty in the simulation; after an earlier failure the two
            # sides may legitimately differ in which edges are still dirty, so the fault may not fire on both
            stats["skipped_after_desync"] = stats.get("skipped_after_desync", 0) + 1
            sync = False
            continue
        if s_ok != r_ok:
            dis.append({"case": case["id"], "inv": i, "what": "exit status", "sim": si["rc"], "real": ro["rc"],
                        "sim_error": [n.get("error") for n in si.get("ninja", [])], "real_tail": ro["tail"][-600:]})
            return dis, stats
        if not s_ok:
            stats["failing_invocations"] += 1
        bd = si["ninja"][0]["bdir"] if si.get("ninja") else None
        if sync and bd is not None:
            # ninja's decision: which outputs were (re)made.  The driver's own files are rewritten on both sides.
            sm = {f for f in sim_modified(si) if not f.endswith(".rsp")}
            drv = {p_[len(bd) + 1:] for p_ in si.get("driver_writes", []) if p_.startswith(bd + "/")}  # files the driver itself writes
            rm = {f for f in ro["modified"] if not f.endswith(".rsp") and not f.endswith(".toml") and f != "build.ninja" and f not in drv}
            if s_ok:
                stats["dirtiness_sets_compared"] += 1
                stats["edges_rerun_compared"] += len(sm)
                if sm != rm:
                    dis.append({"case": case["id"], "inv": i, "what": "set of rebuilt outputs", "only_sim": sorted(sm - rm)[:6], "only_real": sorted(rm - sm)[:6],
                                "reasons": {k: v for k, v in si["ninja"][0]["reasons"].items() if v}})
                    return dis, stats
        if s_ok and r_ok and not si.get("ninja"):
            # the driver decided not to run ninja at all: nothing of ninja's to compare; the sides stay as they were
            continue
        if s_ok and r_ok:
            stats["full_state_compared"] += 1
            # only files of the CURRENT graph: leftovers of earlier, differently interrupted invocations may differ
            cur = set(si["ninja"][0]["reasons"]) | {"build.ninja"} | {k for k in si["listing"] if k.endswith(".toml") and "/" not in k}
            a = {k: v for k, v in si["listing"].items() if k in cur}
            b = {k: v for k, v in ro["digests"].items() if k in cur}
            # parts files list shapes in hash order; both sides ran under the same PYTHONHASHSEED, so they compare too
            if a != b:
                diff = sorted(k for k in set(a) | set(b) if a.get(k) != b.get(k))
                dis.append({"case": case["id"], "inv": i, "what": "build directory contents", "files": diff[:8]})
                return dis, stats
            sync = True
        else:
            sync = False
    return dis, stats


def run(n, seed):
    cases = []
    for i in range(n):
        c = c09.gen_history(seed, 100000 + i, "quick", only_step_faults=True)
        c["id"] = "stubval-%d-%d" % (seed, i)
        jb = c["jobs"][0]
        jb["id"] = c["id"] + ".j0"
        jb["root_id"] = "stubval/%d/%d" % (seed, i)
        jb["keep_trace"] = False
        jb["hashseed"] = 0
        for op in jb["ops"]:
            if op["op"] == "invoke":
                op["sched"] = {"j": 1, "policy": "manifest", "seed": 0, "exec_at": "finish"}
                # kill_at_op needs the in-process hook; the outside devices cannot place it
                if op.get("faults"):
                    for f in op["faults"]:
                        if f["kind"] in ("kill_at_op", "fail_output_lost"):
                            f["kind"] = "fail_before"
        cases.append(c)
    # bitmap-pipeline histories: option walks over the wrapper rules, two fonts taking turns in one build directory
    for i in range(max(1, n // 10)):
        c = c09.gen_bitmap_pipeline_history(seed, 300000 + i)
        c["id"] = "stubval-%d-bp%d" % (seed, i)
        jb = c["jobs"][0]
        jb["id"] = c["id"] + ".j0"
        jb["root_id"] = "stubval/%d/bp%d" % (seed, i)
        jb["keep_trace"] = False
        jb["hashseed"] = 0
        for op in jb["ops"]:
            if op["op"] == "invoke":
                op["sched"] = {"j": 1, "policy": "manifest", "seed": 0, "exec_at": "finish"}
                if op.get("faults"):
                    for f in op["faults"]:
                        if f["kind"] in ("kill_at_op", "fail_output_lost"):
                            f["kind"] = "fail_before"
        cases.append(c)
    # variable-font histories: UFO *directories* are ninja outputs; the outside fault devices cannot tear a
    # directory, so these keep only fail_before / fail_after step faults
    for i in range(max(1, n // 6)):
        c = c09.gen_vf_history(seed, 200000 + i)
        c["id"] = "stubval-%d-vf%d" % (seed, i)
        jb = c["jobs"][0]
        jb["id"] = c["id"] + ".j0"
        jb["root_id"] = "stubval/%d/vf%d" % (seed, i)
        jb["keep_trace"] = False
        jb["hashseed"] = 0
        for op in jb["ops"]:
            if op["op"] == "invoke":
                op["sched"] = {"j": 1, "policy": "manifest", "seed": 0, "exec_at": "finish"}
                op.pop("driver_fault", None)
                op.pop("kill_after", None)
                op.pop("edits", None)
                if op.get("faults"):
                    op["faults"] = [f for f in op["faults"] if f["kind"] in ("fail_before", "fail_after")]
        cases.append(c)
    t0 = time.time()
    sim = orch.run_cases(cases, tag="stubval")
    # real replays, a few at a time (each is a sequential ninja)
    from concurrent.futures import ThreadPoolExecutor

    def one(c):
        try:
            return c["id"], real_replay(c["jobs"][0], sim[c["id"]][0]), None
        except Exception as e:  # noqa
            import traceback

            return c["id"], None, traceback.format_exc()

    with ThreadPoolExecutor(max_workers=max(2, orch.NPROC // 2)) as ex:
        real = list(ex.map(one, cases))
    total = {"histories": len(cases), "invocations": 0, "dirtiness_sets_compared": 0, "full_state_compared": 0, "failing_invocations": 0,
             "edges_rerun_compared": 0, "skipped_after_desync": 0, "disagreements": 0}
    all_dis = []
    for (cid, obs, err), c in zip(real, cases):
        if err:
            all_dis.append({"case": cid, "what": "real replay crashed", "error": err[-800:]})
            continue
        dis, st = compare(c, sim[cid][0], obs)
        for k, v in st.items():
            total[k] += v
        all_dis += dis
    total["disagreements"] = len(all_dis)
    total["wall_s"] = round(time.time() - t0, 1)
    return total, all_dis


def main():
    ap = argparse.ArgumentParser()
    ap.add_argument("--n", type=int, default=40)
    ap.add_argument("--seed", type=int, default=int(os.environ.get("VERIF_SEED") or 0))
    a = ap.parse_args()
    try:
        total, dis = run(a.n, a.seed)
    except orch.HarnessError as e:
        print("HARNESS-ERROR stub validation could not run: %s" % str(e)[:2000])
        orch.cleanup()
        return 2
    print(json.dumps(total))
    for d in dis[:10]:
        print("DISAGREEMENT", json.dumps(d)[:2500])
    orch.cleanup()
    if dis:
        print("HARNESS-ERROR stub validation: SimNinja and the real ninja disagree on %d histor(ies)" % len(dis))
        return 2
    return 0


if __name__ == "__main__":
    sys.exit(main())

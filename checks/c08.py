"""C08 - the build is a function of its inputs: output bytes are deterministic."""
import hashlib
import json
import os
import sys

sys.path.insert(0, os.path.dirname(os.path.dirname(os.path.abspath(__file__))))
from sim import gen, orch  # noqa: E402
from sim.orch import H  # noqa: E402

PROP = "C08"
LEVEL = "exploration"
BRIEF_KEYS = ("font",)
RULE = (
    "case = scenario (2-8 sources, one in eight 33-44, in 1-3 directories, sometimes an 11-14 codepoint sequence; colour format; "
    "options as flags or TOML; sometimes two configurations - also competing for shared bitmaps, then with fixed order - or a "
    "two-master variable font) executed once as reference (hash seed 0, sorted argv, -j1 manifest order, identity readdir, cwd = "
    "project, default build dir, UTC) and as 4-6 variants that redraw PYTHONHASHSEED (the worker interpreter is started with it), "
    "argv / configuration-file / readdir / file-creation order, -j 1..16, scheduling policy and priorities, exec-at-start/finish, "
    "cwd (project / parent / child / sibling), build dir (default, absolute, nested, through a symlink), srcs as glob vs list, "
    "relative vs absolute source paths, time zone, and optionally a used build directory (earlier build with rotated contents or "
    "other option values). Oracle: same exit status and byte-identical output fonts in every execution; no file touched by two "
    "steps that the manifest does not order (declared outputs, persistent scratch, transient scratch seen through inotify). "
    "distinct = distinct (scenario kind, format, variant dimension values, execution-order signature); non-trivial = a variant "
    "that differs from the reference in >= 2 dimensions and reached write_font."
)
ASSUMPTIONS = [
    "all steps of one simulated invocation share one hash seed (fork of one zygote); the seed is varied across executions",
    "SOURCE_DATE_EPOCH fixed to 1600000000 in every simulated process",
    "SimNinja may pick any topological order with up to j edges in flight; real ninja's orders are a subset",
]


def hash_pool(seed, n=8):
    return [0] + [H(seed, "c08", "pool", i) % 4294967296 for i in range(n - 1)]


def gen_scenario(seed, idx):
    r = gen.rng(seed, "c08", idx)
    kind = r.choice(["single", "single", "single", "single", "two-configs", "vf"])
    many = kind == "single" and r.random() < 0.12  # a font with dozens of glyphs: batching / pooling code paths
    sc = {"kind": kind}
    if kind == "vf":
        fmt = r.choice(["glyf_colr_1", "glyf_colr_0", "glyf"])
        names = ["emoji_u%04x.svg" % c for c in r.sample(range(0x61, 0x7A), r.randint(1, 3))]
        srcs = {}
        for n in names:
            srcs["thin/" + n] = r.choice(["corpus:vf/thin61.svg"])
            srcs["bold/" + n] = r.choice(["corpus:vf/bold61.svg"])
        sc["two_axes"] = r.random() < 0.5  # a second axis: the order of the axes in fvar must not come from a set of tags
        if sc["two_axes"]:
            for n in names:
                srcs["narrow/" + n] = "corpus:vf/thin61.svg"
        sc.update(fmt=fmt, srcs=srcs, fonts=["Font.ttf"])
        sc["opts"] = {"output_file": "Font.ttf", "color_format": fmt}
        return sc
    fmt = gen.pick_format(r)
    small = fmt in gen.BITMAP
    dirs = r.choice([("src",), ("src",), ("src", "src/sub"), ("src", "src/sub", "more")])
    n = r.randint(2, 8 if not small else 5)
    if many:
        n = r.randint(33, 44)
        small = True
    ss = gen.source_set(gen.rng(seed, "c08", idx, "names"), n, dirs=dirs, small=small)
    srcs = {p: c for p, c, _ in ss}
    if r.random() < 0.2:  # a sequence long enough for the hashed glyph-name fallback (> 63 characters)
        from checks.c10 import long_sequence

        cps = long_sequence(r, r.randint(11, 14))
        srcs[dirs[0] + "/" + gen.file_stem(r, cps) + ".svg"] = gen.content(r, small)
    # same file name in two directories exercises the 1..N disambiguation of intermediates
    if r.random() < 0.25 and kind == "two-configs" and len(ss) >= 2:
        pass
    opts = {"color_format": fmt, "output_file": "Font" + gen.ext_for(fmt)}
    if small:
        opts["bitmap_resolution"] = r.choice([16, 24, 32])
    for name in r.sample(["upem", "width", "ascender", "family", "reuse_tolerance", "keep_glyph_names", "clip_to_viewbox",
                          "clipbox_quantization", "pretty_print", "transform", "version_major"], r.choice([0, 1, 2, 3])):
        opts[name] = r.choice(gen.OPTION_VALUES[name])
    if fmt in gen.BITMAP and r.random() < 0.5:
        name = r.choice(["use_zopflipng", "use_pngquant", "pngquant_flags"])
        opts[name] = r.choice(gen.OPTION_VALUES[name])
    sc.update(fmt=fmt, srcs=srcs, opts=opts, fonts=[opts["output_file"]])
    if kind == "two-configs":
        o2 = dict(opts)
        o2["output_file"] = "Second" + gen.ext_for(fmt)
        o2["family"] = "Second Family"
        for name in r.sample(["keep_glyph_names", "clip_to_viewbox", "version_major", "upem", "pretty_print"], 2):
            vals = [v for v in gen.OPTION_VALUES[name] if v != opts.get(name)]
            o2[name] = r.choice(vals)
        if fmt in gen.BITMAP and r.random() < 0.6:
            # the two configurations want different pixels from the same sources.  Which one gets them is decided by the
            # order of the configuration files (KF-C20-bitmap-intermediates-shared), so that order is kept fixed here;
            # everything else - hash seed, schedule, locations - must still not matter
            o2["bitmap_resolution"] = 48 if opts.get("bitmap_resolution") != 48 else 24
            sc["fixed_config_order"] = True
        sc["opts2"] = o2
        paths = sorted(srcs)
        sc["srcs2"] = sorted(r.sample(paths, max(1, len(paths) - r.choice([0, 1]))))
        # a second directory holding a file with the same NAME as one of the first configuration's sources
        if r.random() < 0.5:
            twin = "twin/" + os.path.basename(paths[0])
            sc["srcs"][twin] = gen.content(r, small)
            sc["srcs2"] = sorted(set(sc["srcs2"]) - {paths[0]} | {twin})
        sc["fonts"].append(o2["output_file"])
    sc["delivery"] = r.choice(["flags", "toml", "toml"]) if kind == "single" else "toml"
    return sc


def build_job(seed, idx, sc, vi, var):
    """var: dict of variant dimensions"""
    r = gen.rng(seed, "c08", idx, "variant", vi)
    ops = []
    proj = var.get("proj_name") or "proj"
    items = sorted(sc["srcs"].items())
    if var.get("write_perm"):
        r.shuffle(items)  # the order in which the files came into being (their relative mtimes) is not an input either
    for p, c in items:
        ops.append({"op": "write", "path": proj + "/" + p, "content": c})
    cwd = {"project": proj, "parent": ".", "child": proj + "/src", "sibling": "elsewhere"}[var["cwd"]]
    if sc["kind"] == "vf":
        cwd = {"child": proj + "/thin"}.get(var["cwd"], cwd)
    ops.append({"op": "mkdir", "path": cwd})

    def ref_path(p):  # how the user names project file p from cwd
        if var["abs_paths"]:
            return "$ROOT/" + proj + "/" + p
        return os.path.relpath(os.path.join("/", proj, p), os.path.join("/", cwd))

    argv = []
    bd = var["build_dir"]
    if bd == "default":
        build_dir = "build"
    elif bd == "absolute":
        argv += ["--build_dir", "$ROOT/out/abs-build"]
        build_dir = os.path.relpath("/out/abs-build", os.path.join("/", cwd))
    elif bd == "nested":
        argv += ["--build_dir", "deep/er/build"]
        build_dir = "deep/er/build"
    else:  # through a symlink
        ops.append({"op": "mkdir", "path": "real-place"})
        ops.append({"op": "symlink", "path": os.path.join(cwd, "lnk"), "target": os.path.relpath("/real-place", os.path.join("/", cwd))})
        argv += ["--build_dir", "lnk/build"]
        build_dir = "lnk/build"

    def srcs_for(paths):
        if var["glob"]:
            ds = sorted({os.path.dirname(p) for p in paths})
            by_dir = {d: sorted(p for p in sc["srcs"] if os.path.dirname(p) == d) for d in ds}
            if all(set(by_dir[d]) <= set(paths) for d in ds):
                return [d + "/*.svg" for d in ds]
        out = list(paths)
        r.shuffle(out)
        return out

    if sc["kind"] == "vf":
        from collections import OrderedDict

        def msrcs(d):
            return [d + "/*.svg"] if var["glob"] else sorted(p for p in sc["srcs"] if p.startswith(d + "/"))

        if sc.get("two_axes"):
            masters = OrderedDict([("thin", {"style_name": "Thin", "srcs": msrcs("thin"), "position": OrderedDict([("wght", 300), ("wdth", 100)])}),
                                   ("bold", {"style_name": "Bold", "srcs": msrcs("bold"), "position": OrderedDict([("wght", 700), ("wdth", 100)])}),
                                   ("narrow", {"style_name": "Narrow", "srcs": msrcs("narrow"), "position": OrderedDict([("wght", 300), ("wdth", 75)])})])
            axes = OrderedDict([("wght", ("Weight", 300)), ("wdth", ("Width", 100))])
        else:
            masters = {"thin": {"style_name": "Thin", "srcs": msrcs("thin"), "position": {"wght": 300}},
                       "bold": {"style_name": "Bold", "srcs": msrcs("bold"), "position": {"wght": 700}}}
            axes = {"wght": ("Weight", 300)}
        toml = gen.toml_config(sc["opts"], None, masters=masters, axes=axes)
        ops.append({"op": "write", "path": proj + "/config.toml", "content": "text:" + toml})
        argv += [ref_path("config.toml")]
    elif sc["delivery"] == "flags":
        a = [ref_path(p) for p in sorted(sc["srcs"])]
        flags = gen.flag_args(sc["opts"])
        if var["argv_perm"]:
            r.shuffle(a)
            argv += (a + flags) if r.random() < 0.3 else (flags + a)
        else:
            argv += flags + a
    else:
        cfgs = [("config.toml", sc["opts"], sorted(sc["srcs"]) if sc["kind"] == "single" else sorted(set(sc["srcs"]) - {p for p in sc["srcs"] if p.startswith("twin/")}))]
        if sc["kind"] == "two-configs":
            cfgs.append(("second.toml", sc["opts2"], sc["srcs2"]))
        for name, o, paths in cfgs:
            ops.append({"op": "write", "path": proj + "/" + name, "content": "text:" + gen.toml_config(o, srcs_for(paths))})
        order = [name for name, _, _ in cfgs]
        if var["argv_perm"] and len(order) > 1 and r.random() < 0.5 and not sc.get("fixed_config_order"):
            order.reverse()  # the order of configuration files is an order of command-line arguments too
        argv += [ref_path(name) for name in order]
    sched = {"j": 1, "policy": "manifest", "seed": 0, "exec_at": "finish"} if vi == 0 else var["sched"]
    if var.get("used_build_dir") and sc["kind"] != "vf":
        # the build directory is not empty: an earlier build of the same project with the sources' contents rotated
        # among the files (and, for flag delivery, one option different) has been there.  Not an input either.
        names = [p for p, _ in sorted(sc["srcs"].items())]
        contents = [c for _, c in sorted(sc["srcs"].items())]
        pre = []
        rotate = len(names) > 1 and len({json.dumps(c, sort_keys=True) for c in contents}) > 1 and r.random() < 0.6
        # the earlier build used other option values, given as flags (flags beat the file, whatever the delivery)
        other = []
        if sc["fmt"] in gen.BITMAP:
            other = r.choice([["--nouse_zopflipng"], ["--use_zopflipng"], ["--nouse_pngquant"], ["--use_pngquant"], ["--pngquant_flags", "--speed 10 --quality 40-60"],
                              ["--pngquant_flags", "--speed 3 --quality 100-100"], ["--bitmap_resolution", "48"]])
        elif "--upem" not in argv:
            other = r.choice([["--upem", "2000"], ["--noclip_to_viewbox"], ["--reuse_tolerance", "-1"], ["--keep_glyph_names"], []])
        if rotate or other:
            if rotate:
                for p, c in zip(names, contents[1:] + contents[:1]):
                    pre.append({"op": "write", "path": proj + "/" + p, "content": c})
            pre.append({"op": "invoke", "cwd": cwd, "argv": list(argv) + other, "build_dir": build_dir, "label": "earlier", "sched": var["sched"]})  # the last flag wins
            if rotate and r.random() < 0.5:
                # ... on another day: every source is rewritten afterwards, so every step up to the font runs again and
                # nothing of that day may survive into the build under test
                pre[-1]["env"] = {"SOURCE_DATE_EPOCH": "1500000000"}
            if rotate:
                for p, c in sorted(sc["srcs"].items()):
                    pre.append({"op": "write", "path": proj + "/" + p, "content": c})
            ops.extend(pre)
    ops.append({"op": "invoke", "cwd": cwd, "argv": argv, "build_dir": build_dir, "label": "build", "sched": sched, "final": True})
    extra_env = dict(var.get("env") or {})
    if var.get("tz"):
        extra_env["TZ"] = var["tz"]  # the machine's time zone is not an input (SOURCE_DATE_EPOCH is fixed)
    if extra_env:
        for op in ops:
            if op["op"] == "invoke":
                op["env"] = dict(extra_env, **(op.get("env") or {}))
    jid = "c08-%d-%d.v%d" % (seed, idx, vi)
    return {"id": jid, "root_id": "c08/%d/%d/v%d" % (seed, idx, vi), "hashseed": var["hashseed"], "clock_seed": H(seed, idx, vi) % (1 << 31),
            "pid_base": 1000 + H(seed, idx, vi, "pid") % 30000,  # process ids and wall-clock time differ between executions, as in real life
            "readdir_seed": var["readdir_seed"], "keep_trace": False, "ops": ops}


def gen_case(seed, idx, pool, nvar):
    sc = gen_scenario(seed, idx)
    r = gen.rng(seed, "c08", idx, "vars")
    ref = {"hashseed": 0, "argv_perm": False, "readdir_seed": None, "cwd": "project", "build_dir": "default",
           "glob": False, "abs_paths": False, "sched": None, "write_perm": False, "used_build_dir": False, "tz": None, "proj_name": None, "env": None}
    variants = [ref]
    for vi in range(1, nvar + 1):
        variants.append({
            "hashseed": r.choice(pool), "argv_perm": r.random() < 0.8, "readdir_seed": r.randint(1, 1 << 30) if r.random() < 0.8 else None,
            "cwd": r.choice(["project", "project", "parent", "child", "sibling"]),
            "build_dir": r.choice(["default", "default", "absolute", "nested", "symlink"]),
            "glob": r.random() < 0.5, "abs_paths": r.random() < 0.3, "sched": gen.sched(r), "write_perm": r.random() < 0.5, "used_build_dir": r.random() < 0.3, "tz": r.choice([None, None, "UTC", "JST-9", "PST8PDT", "Europe/Berlin"]),
            # where the checkout lives and what the machine / account looks like
            "proj_name": r.choice([None, None, "p", "my project (v2)", "a" * 48, "prøjekt"]),
            "env": r.choice([None, None, {"NSIM_CPU_COUNT": "1"}, {"NSIM_CPU_COUNT": "64", "NSIM_UMASK": "077"}, {"NSIM_UMASK": "002", "COLUMNS": "40", "NO_COLOR": "1"},
                             {"HOME": "$ROOT/home", "USER": "someone", "LOGNAME": "someone"}, {"LANG": "C", "LC_ALL": "C"}]),
        })
    if sc.get("two_axes"):
        # a set of two tags comes out in the other order for about one hash seed in three: spend the whole pool on these cases
        others = [h for h in pool if h != 0]
        while len(variants) <= len(others):
            variants.append(dict(variants[1 + (len(variants) - 1) % nvar]))
        for vi in range(1, len(variants)):
            variants[vi]["hashseed"] = others[(vi - 1) % len(others)]
    jobs = [build_job(seed, idx, sc, vi, v) for vi, v in enumerate(variants)]
    return {"id": "c08-%d-%d" % (seed, idx), "jobs": jobs,
            "meta": {"kind": sc["kind"], "fmt": sc["fmt"], "fonts": sc["fonts"], "n_srcs": len(sc["srcs"]), "delivery": sc.get("delivery"),
                     "variants": [{k: v for k, v in x.items()} for x in variants]}}


def gen_cases(seed, tier, scale=1.0):
    n = int((40 if tier == "quick" else 1500) * scale)
    pool = hash_pool(seed, 8 if tier == "quick" else 16)
    nvar = 4 if tier == "quick" else 6
    return [gen_case(seed, i, pool, nvar) for i in range(n)]


def _first_div(a, b):
    for k in sorted(set(a) | set(b)):
        if k.endswith(".rsp") or k == "build.ninja" or k.endswith(".toml") or k.endswith("parts-merged.json") or k.endswith(".parts.json"):
            continue
        if a.get(k) != b.get(k):
            return k
    return None


def judge(case, results):
    out = []
    m = case["meta"]
    invs = [orch.invokes(r)[-1] for r in results]
    ref = invs[0]
    for vi, r in enumerate(invs):
        for n in r.get("ninja", []):
            for a in n.get("anomalies", []):
                if a["k"] == "hb.unordered_access":
                    out.append({"class": a["k"], "detail": {"edge": a.get("edge"), "path": a.get("path"), "owner": a.get("owner"), "variant": vi}})
    if ref["rc"] != 0 and all(r["rc"] != 0 for r in invs):
        return out + [{"class": "discard", "detail": {"tail": (ref.get("steps_tail") or ref.get("driver_tail") or "")[-300:]}}]
    for vi, r in enumerate(invs[1:], 1):
        v = m["variants"][vi]
        varied = ",".join(k for k in ("hashseed", "argv_perm", "readdir_seed", "cwd", "build_dir", "glob", "abs_paths", "write_perm", "used_build_dir", "tz", "proj_name", "env")
                          if v[k] != m["variants"][0][k]) + ",sched"
        if (r["rc"] == 0) != (ref["rc"] == 0):
            out.append({"class": "exit-status-varies", "detail": {"variant": vi, "varied": varied, "rc": [ref["rc"], r["rc"]],
                                                                  "tail": (r.get("steps_tail") or r.get("driver_tail") or ref.get("steps_tail") or "")[-500:]}})
            continue
        for font in m["fonts"]:
            a, b = ref["listing"].get(font), r["listing"].get(font)
            if a != b:
                out.append({"class": "font-bytes-vary", "detail": {"variant": vi, "font": font, "varied": varied, "ref": a, "got": b,
                                                                   "first_diverging_file": _first_div(ref["listing"], r["listing"]),
                                                                   "dims": {k: v[k] for k in v if k != "sched"}, "sched": v["sched"]}})
    seen, uniq = set(), []
    for f in out:
        key = (f["class"], (f.get("detail") or {}).get("font"))
        if key not in seen:
            seen.add(key)
            uniq.append(f)
    return uniq


def protect(jb, i, op):
    return op["op"] == "invoke"


def signature(case, results):
    # one signature per case: the set of (dimension values, order signature) of its non-trivial variants
    m = case["meta"]
    sigs = []
    for vi, r in enumerate(results[1:], 1):
        inv = orch.invokes(r)[-1]
        v = m["variants"][vi]
        ndiff = sum(1 for k in ("hashseed", "argv_perm", "readdir_seed", "cwd", "build_dir", "glob", "abs_paths") if v[k] != m["variants"][0][k])
        reached = any(s.get("rule", "").startswith("write_") for n in inv.get("ninja", []) for s in n["steps"] if "out" in s)
        if ndiff >= 2 and reached:
            sigs.append((v["cwd"], v["build_dir"], v["glob"], v["abs_paths"], v["hashseed"], inv["ninja"][0]["order_sig"] if inv.get("ninja") else None))
    if not sigs:
        return None
    return (m["kind"], m["fmt"], tuple(sorted(sigs, key=repr)))


def describe(case):
    return {"id": case["id"], "meta": {k: v for k, v in case["meta"].items() if k != "variants"},
            "variants": case["meta"]["variants"][:3],
            "invocations": [[op["argv"] for op in jb["ops"] if op["op"] == "invoke"][0] for jb in case["jobs"][:3]]}


def extra_coverage(cases, results):
    import collections

    dims = collections.Counter()
    hs = set()
    execs = 0
    for c in cases:
        for v in c["meta"]["variants"][1:]:
            execs += 1
            hs.add(v["hashseed"])
            for k in ("cwd", "build_dir"):
                dims["%s=%s" % (k, v[k])] += 1
            for k in ("argv_perm", "glob", "abs_paths", "write_perm", "used_build_dir"):
                if v[k]:
                    dims[k] += 1
            if v["readdir_seed"] is not None:
                dims["readdir_permuted"] += 1
            dims["j=%d" % v["sched"]["j"]] += 1
            dims["policy=%s" % v["sched"]["policy"]] += 1
    kinds = collections.Counter("%s/%s" % (c["meta"]["kind"], c["meta"]["fmt"]) for c in cases)
    return {"variant_executions": execs, "distinct_hash_seeds": len(hs), "variant_dimensions": dict(sorted(dims.items())),
            "scenarios_per_kind_and_format": dict(sorted(kinds.items()))}


if __name__ == "__main__":
    from checks import common

    sys.exit(common.main(sys.modules[__name__]))

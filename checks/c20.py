"""C20 - every configuration option reaches the font it configures; configurations
built in one invocation do not interfere."""
import hashlib
import json
import os
import sys

sys.path.insert(0, os.path.dirname(os.path.dirname(os.path.abspath(__file__))))
from sim import gen, orch  # noqa: E402
from sim.orch import H  # noqa: E402

PROP = "C20"
LEVEL = "exploration"
BRIEF_KEYS = ("part", "cause", "field", "mode", "oracle")
RULE = (
    "part A (interference): 2-3 configurations sharing sources and differing in 1-3 options, built together in one "
    "invocation (either argv order, random schedule, empty or warmed build directory) and each alone at the same path "
    "(the executable reference); joint succeeds iff every solo does and each font is byte-identical to its solo font. "
    "part B (reachability): base configuration + one perturbed field delivered by flag / TOML / both (flag wins), on an "
    "empty or warm directory; direct table oracles (name, head, hhea, OS/2, hmtx, post, table tags, ClipList, strike "
    "ppem, GSUB, glyph names) or metamorphic ones (flag route == file route, != base where an effect is guaranteed by "
    "construction). distinct = (part, field or differing-option set, format, delivery modes, warm) ; non-trivial = every "
    "build of the case reached write_font at least once."
)
ASSUMPTIONS = [
    "solo build at the same path is the reference for a joint build (location independence is C08's business)",
    "table oracles are written from the documented meaning of each option, independent of nanoemoji's code",
]

PAIR_GM = "proj.write_glyphmap"  # a second glyph-map generator (own glyph names) for part A; same BASENAME as the default one on purpose

PAIR_OPTS = [
    "glyphmap_generator", "glyphmap_generator",
    "clip_to_viewbox", "clip_to_viewbox", "bitmap_resolution", "use_pngquant", "use_zopflipng", "pngquant_flags",
    "reuse_tolerance", "upem", "ascender", "descender", "width", "keep_glyph_names", "pretty_print", "transform",
    "clipbox_quantization", "family", "version_major", "color_format", "color_format", "linegap",
]

# ---------------------------------------------------------------------------
# part A
# ---------------------------------------------------------------------------


def gen_pair(seed, idx):
    r = gen.rng(seed, "c20A", idx)
    fam = r.choice(["vector", "vector", "bitmap", "mixed"])
    n_cfg = r.choice([2, 2, 2, 3])
    small = fam != "vector"
    srcs = gen.source_set(gen.rng(seed, "c20A", idx, "names"), r.randint(2, 4), small=small)
    if r.random() < 0.5:  # make sure clipping matters for at least one source
        srcs[0] = (srcs[0][0], {"kind": "outside", "n": 2, "seed": idx % 50}, srcs[0][2])
    paths = [p for p, _, _ in srcs]

    def fmt_for(i):
        if fam == "vector":
            return r.choice(["glyf_colr_1", "glyf_colr_0", "picosvg", "glyf", "untouchedsvg", "cff2_colr_1"])
        if fam == "bitmap":
            return r.choice(["cbdt", "sbix"])
        return r.choice(["cbdt", "sbix"]) if i % 2 == 0 else r.choice(["glyf_colr_1", "picosvg"])

    base_fmt = fmt_for(0)
    base = {"color_format": base_fmt}
    if small:
        base["bitmap_resolution"] = 24
    differing = sorted(set(r.sample(PAIR_OPTS, r.choice([1, 1, 2, 3]))))
    cfgs = []
    for i in range(n_cfg):
        o = dict(base)
        if "color_format" in differing or fam == "mixed":
            o["color_format"] = fmt_for(i)
        for name in differing:
            if name == "color_format":
                continue
            if name == "glyphmap_generator":
                if i % 2 == 1:
                    o[name] = PAIR_GM
                continue
            vals = gen.OPTION_VALUES[name]
            o[name] = vals[i % len(vals)] if i < 2 else r.choice(vals)
        o["output_file"] = "F%d%s" % (i, gen.ext_for(o["color_format"]))
        if r.random() < 0.5:
            o.setdefault("family", "Fam %d" % i)
        share = paths if (i == 0 or r.random() < 0.6) else r.sample(paths, max(1, len(paths) - 1))
        if not set(share) & set(paths[:1]):
            share = paths[:1] + share  # every configuration shares the first source
        cfgs.append({"opts": o, "srcs": sorted(share), "toml": "c%d.toml" % i})
    ops = [{"op": "write", "path": p, "content": c} for p, c, _ in srcs]
    gm_env = None
    if "glyphmap_generator" in differing:
        ops.append({"op": "write", "path": "$SIDE/gm/proj/__init__.py", "content": "text:", "keep": True})
        ops.append({"op": "write", "path": "$SIDE/gm/%s.py" % PAIR_GM.replace(".", "/"), "content": "text:" + MY_GLYPHMAP, "keep": True})
        gm_env = {"PYTHONPATH": "$SIDE/gm"}
    for c in cfgs:
        ops.append({"op": "write", "path": c["toml"], "content": "text:" + gen.toml_config(c["opts"], c["srcs"]), "keep": True})
    rs = gen.rng(seed, "c20A", idx, "sched")
    warm = r.choice(["cold", "cold", "solo", "joint-old"])
    if warm == "solo":
        k = r.randrange(n_cfg)
        ops.append({"op": "invoke", "cwd": ".", "argv": [cfgs[k]["toml"]], "build_dir": "build", "label": "warm", "sched": gen.sched(rs)})
    elif warm == "joint-old":
        # an earlier joint build in the opposite order
        ops.append({"op": "invoke", "cwd": ".", "argv": [c["toml"] for c in reversed(cfgs)], "build_dir": "build", "label": "warm", "sched": gen.sched(rs)})
    order = list(range(n_cfg))
    r.shuffle(order)
    ops.append({"op": "invoke", "cwd": ".", "argv": [cfgs[i]["toml"] for i in order], "build_dir": "build",
                "label": "joint", "sched": gen.sched(rs), "final": True})
    for i, c in enumerate(cfgs):
        ops.append({"op": "rename", "src": "build", "dst": "build.aside%d" % i, "keep": True})
        ops.append({"op": "invoke", "cwd": ".", "argv": [c["toml"]], "build_dir": "build", "label": "solo%d" % i,
                    "sched": {"j": 1, "policy": "manifest", "seed": 0, "exec_at": "finish"}, "final": True})
    if gm_env:
        for op in ops:
            if op["op"] == "invoke":
                op["env"] = gm_env
    cid = "c20A-%d-%d" % (seed, idx)
    job = {"id": cid + ".j0", "root_id": "c20/%d/A%d" % (seed, idx), "hashseed": H(seed, "c20A", idx, "hs") % 4294967296,
           "clock_seed": idx, "readdir_seed": H(seed, "c20A", idx, "rd") % (1 << 31), "keep_trace": False, "ops": ops}
    return {"id": cid, "jobs": [job], "meta": {"part": "A", "fonts": [c["opts"]["output_file"] for c in cfgs], "differing": differing,
                                               "formats": [c["opts"]["color_format"] for c in cfgs], "warm": warm,
                                               "opts": [c["opts"] for c in cfgs], "srcs": [c["srcs"] for c in cfgs]}}


def _top(path):
    return path.split("/")[0] if path and "/" in path else path


def _diverging_cause(joint, solos, i, font):
    """first intermediate of configuration i that differs between the joint and its solo build, classified"""
    for f in sorted(solos[i]["listing"]):
        if f == font or f.endswith(".rsp") or f == "build.ninja" or f.endswith("parts-merged.json"):
            continue
        ja, sb = joint["listing"].get(f), solos[i]["listing"][f]
        if ja != sb:
            cross = any(k != i and solos[k]["listing"].get(f) == ja and ja is not None for k in range(len(solos)))
            return ("cross-config:" if cross else ("missing:" if ja is None else "differs:")) + _top(f), f
    return None, None


def judge_pair(case, res):
    lab = {r.get("label"): r for r in orch.invokes(res)}
    joint = lab["joint"]
    m = case["meta"]
    solos = [lab["solo%d" % i] for i in range(len(m["fonts"]))]
    out = []
    for r in orch.invokes(res):
        for n in r.get("ninja", []):
            for a in n.get("anomalies", []):
                if a["k"] == "hb.unordered_access":
                    out.append({"class": a["k"], "detail": {"part": "A", "edge": a.get("edge"), "path": a.get("path"), "owner": a.get("owner")}})
    solo_ok = [s["rc"] == 0 for s in solos]
    if not all(solo_ok):
        if joint["rc"] == 0:
            failing = sorted({st["rule"] for s in solos for n in s.get("ninja", []) for st in n["steps"] if "out" in st and st["status"] != ["exit", 0]})
            out.append({"class": "joint-succeeds-solo-fails", "detail": {"part": "A", "cause": "solo-step:" + "+".join(failing) if failing else "solo-driver",
                                                                          "solo_rc": [s["rc"] for s in solos], "differing": ",".join(m["differing"])}})
        else:
            bad = [i for i, ok in enumerate(solo_ok) if not ok]
            tail = (solos[bad[0]].get("steps_tail") or solos[bad[0]].get("driver_tail") or "")[-500:]
            out.append({"class": "configuration-does-not-build", "detail": {"part": "A", "cause": "solo", "opts": m["opts"][bad[0]], "tail": tail}})
        return out
    if joint["rc"] != 0:
        failing = None
        err = None
        for n in joint.get("ninja", []):
            err = err or n.get("error")
            for s in n["steps"]:
                if "out" in s and s["status"] != ["exit", 0]:
                    failing = failing or s["rule"]
        cause = "step:" + failing if failing else ("ninja:" + (err or "").split(",")[-1].strip()[:40] if err else "driver")
        failing_out = next((s["out"] for n in joint.get("ninja", []) for s in n["steps"] if "out" in s and s["status"] != ["exit", 0]), None)
        if failing == "write_font" and failing_out in m["fonts"]:
            # a font step that fails only in the joint build: was it fed another configuration's intermediate?
            c2, _f = _diverging_cause(joint, solos, m["fonts"].index(failing_out), failing_out)
            if c2 and c2.startswith("cross-config:"):
                cause = c2
        out.append({"class": "joint-fails-solo-succeeds", "detail": {"part": "A", "cause": cause, "differing": ",".join(m["differing"]),
                                                                      "formats": m["formats"], "tail": (joint.get("steps_tail") or joint.get("driver_tail") or "")[-500:]}})
        return out
    for i, font in enumerate(m["fonts"]):
        a, b = joint["listing"].get(font), solos[i]["listing"].get(font)
        if a == b and a is not None:
            continue
        # root cause: first intermediate of this configuration that differs between joint and solo
        cause, div = _diverging_cause(joint, solos, i, font)
        cause = cause or "unknown"
        out.append({"class": "joint-differs-from-solo", "detail": {"part": "A", "cause": cause, "font": font, "first_diverging_file": div,
                                                                    "differing": ",".join(m["differing"]), "formats": m["formats"], "warm": m["warm"]}})
    return out


# ---------------------------------------------------------------------------
# part B
# ---------------------------------------------------------------------------

B_SOURCES = {
    "src/emoji_u41.svg": {"kind": "outside", "n": 2, "seed": 3, "viewbox": [0, 0, 100, 100]},
    "src/emoji_u1f600.svg": {"kind": "rects", "n": 3, "seed": 5, "viewbox": [0, 0, 200, 100]},
    "src/emoji_u1f469_200d_1f91d.svg": {"kind": "shared", "n": 3, "seed": 1, "viewbox": [0, 0, 100, 100]},
    "src/emoji_u42.svg": "corpus:reused_shape.svg",
    "src/emoji_u43.svg": "text:<svg xmlns=\"http://www.w3.org/2000/svg\" viewBox=\"0 0 100 100\"><defs><linearGradient id=\"g\" x1=\"10\" y1=\"10\" x2=\"90\" y2=\"60\" gradientUnits=\"userSpaceOnUse\"><stop offset=\"0\" stop-color=\"red\"/><stop offset=\"1\" stop-color=\"blue\"/></linearGradient></defs><path d=\"M10,10 L90,22 L71,63 L18,55 Z\" fill=\"url(#g)\"/></svg>",  # an irregular quadrilateral: nothing else can donate it
}
B_VIEWBOX = {"A": (100, 100), "g_1f600": (200, 100), "g_1f469_200d_1f91d": (100, 100), "B": (128, 128), "C": (100, 100)}
B_CPS = {"A": (0x41,), "g_1f600": (0x1F600,), "g_1f469_200d_1f91d": (0x1F469, 0x200D, 0x1F91D), "B": (0x42,), "C": (0x43,)}

B_FIELDS = {
    # field: (values, formats it is observable in or None for all)
    "family": (["Fam B", "Noto Übung", "X"], None),
    "version_major": ([2, 16], None),
    "version_minor": ([3, 28, 280], None),
    "upem": ([2048, 1000, 512], None),
    "ascender": ([880, 1024, 800], None),
    "descender": ([-120, 0, -300], None),
    "linegap": ([100, 37], None),
    "width": ([1000, 0, 2048, 1300], None),
    "color_format": (gen.ALL_FORMATS, None),
    "output_file": (["Other.ttf", "My Font.ttf", "sub.name.ttf", "Flavour.otf", "Flavour.ttf", "sub/Nested.ttf"], None),
    "keep_glyph_names": ([True, False], ["glyf", "glyf_colr_0", "glyf_colr_1", "untouchedsvg", "cbdt", "sbix", "picosvg"]),
    "clipbox_quantization": ([1, 16, 50, 100], ["glyf_colr_1", "cff2_colr_1", "cff_colr_1"]),
    "bitmap_resolution": ([16, 24, 48, 20], ["cbdt", "sbix"]),
    "transform": (["matrix(1 0 0 1 40 -30)", "scale(0.5)", "translate(100, 20)"], ["glyf", "glyf_colr_0", "glyf_colr_1", "cff2_colr_1", "picosvg"]),
    "reuse_tolerance": ([-1.0, 0.2, 0.05], ["glyf_colr_1", "picosvg", "glyf", "cff2_colr_1"]),
    "clip_to_viewbox": ([False], ["glyf_colr_1", "glyf_colr_0", "picosvg", "glyf", "cff2_colr_1"]),
    "pretty_print": ([True], ["picosvg", "untouchedsvg"]),
    "use_pngquant": ([False], ["cbdt", "sbix"]),
    "use_zopflipng": ([False], ["cbdt", "sbix"]),
    "pngquant_flags": (["--speed 10 --quality 40-60", "--speed 11 --posterize 2", "--speed 3 --quality 100-100"], ["cbdt", "sbix"]),
    "ignore_reuse_error": ([False], ["glyf_colr_1", "picosvg"]),
    "glyphmap_generator": (["my_glyphmap"], ["glyf_colr_1", "glyf", "picosvg", "cbdt"]),
}
METAMORPHIC_EFFECT = {  # fields whose effect on the font bytes is guaranteed by construction of B_SOURCES
    "transform": True, "clip_to_viewbox": True, "reuse_tolerance": False, "pretty_print": False,
    "use_pngquant": False, "use_zopflipng": False, "pngquant_flags": False, "ignore_reuse_error": False,
}

MY_GLYPHMAP = '''
from absl import app
from absl import flags
from nanoemoji.glyph import glyph_name
from nanoemoji.glyphmap import GlyphMapping
from nanoemoji import codepoints
from nanoemoji import util
from pathlib import Path

FLAGS = flags.FLAGS
flags.DEFINE_string("output_file", "-", "Output filename")


def main(argv):
    input_files = util.expand_ninja_response_files(argv[1:])
    by_stem = {}
    for f in input_files:
        p = Path(f)
        by_stem.setdefault(p.stem, [None, None])[0 if p.suffix == ".svg" else 1] = p
    with util.file_printer(FLAGS.output_file) as print:
        for stem, files in by_stem.items():
            cps = tuple(codepoints.from_filename(stem))
            print(GlyphMapping(files[0], files[1], cps, "zz_" + glyph_name(cps)).csv_line())


if __name__ == "__main__":
    app.run(main)
'''


def _default(field):
    return {
        "family": "An Emoji Family", "version_major": 1, "version_minor": 0, "upem": 1024, "ascender": 950,
        "descender": -250, "linegap": 0, "width": 1275, "keep_glyph_names": False, "clipbox_quantization": None,
        "bitmap_resolution": 128, "clip_to_viewbox": True, "reuse_tolerance": 0.1, "pretty_print": False,
        "use_pngquant": True, "use_zopflipng": True, "transform": "translate(0, 0)", "ignore_reuse_error": True,
        "glyphmap_generator": "nanoemoji.write_glyphmap",
        "pngquant_flags": "--speed 1 --skip-if-larger --quality 85-95",
    }.get(field)


def gen_single(seed, idx):
    r = gen.rng(seed, "c20B", idx)
    field = r.choice(sorted(B_FIELDS) + ["transform", "transform", "glyphmap_generator"])
    values, fmts = B_FIELDS[field]
    if field == "color_format":
        base_fmt = r.choice(["glyf_colr_1", "picosvg", "cbdt"])
        value = r.choice([v for v in values if v != base_fmt])
    else:
        base_fmt = r.choice(fmts) if fmts else gen.pick_format(r, 0.7)
        value = r.choice(values)
    base = {"color_format": base_fmt, "output_file": "Font" + gen.ext_for(base_fmt)}
    if base_fmt in gen.BITMAP:
        base["bitmap_resolution"] = 32
    # some other non-default options ride along so that "the field" is not the only thing in the file
    ride = {"upem": [2048, 1000, 512], "ascender": [880, 1024], "descender": [-120, 0], "width": [1000, 0, 2048], "family": ["Fam B", "Noto Übung"],
            "linegap": [100, 37], "version_minor": [3, 280], "version_major": [2, 16], "keep_glyph_names": [True], "clipbox_quantization": [16, 50]}
    for extra in r.sample(sorted(ride), r.choice([0, 1, 2, 3, 4])):
        if extra != field:
            base[extra] = r.choice(ride[extra])
    # "flag wins" must also hold when the flag restates the documented default against a non-default file value
    if r.random() < 0.3 and _default(field) is not None and field not in base and field not in ("bitmap_resolution", "glyphmap_generator", "pngquant_flags", "transform"):
        value = _default(field)
    if field == "glyphmap_generator":
        base["keep_glyph_names"] = True  # without stored glyph names the generator's naming has no observable
    if field == "bitmap_resolution" and value == base.get("bitmap_resolution"):
        value = 48
    if base.get(field) == value:
        value = [v for v in values if v != base.get(field)][0]
    var = dict(base)
    var[field] = value
    if field == "color_format":
        var["output_file"] = "Font" + gen.ext_for(value)
        if value in gen.BITMAP:
            var.setdefault("bitmap_resolution", 32)
    if field == "output_file" and base_fmt.startswith("cff") and not value.startswith("Flavour"):
        var["output_file"] = value.replace(".ttf", ".otf")
    other = [v for v in values if v != value] or [_default(field)]
    file_value_when_both = other[0]  # the file says something else; the flag must win
    srcs = sorted(B_SOURCES)
    ops = [{"op": "write", "path": p, "content": c, "keep": True} for p, c in sorted(B_SOURCES.items())]  # the oracles know these four
    env = None
    if field == "glyphmap_generator":
        ops.append({"op": "write", "path": "$SIDE/gm/my_glyphmap.py", "content": "text:" + MY_GLYPHMAP, "keep": True})
        env = {"PYTHONPATH": "$SIDE/gm"}
    rs = gen.rng(seed, "c20B", idx, "sched")
    modes = r.sample(["flag", "file", "both"], 2)
    warm = r.random() < 0.5

    def build(label, opts, mode, override=None):
        """mode: how `field` is delivered; everything else is in the TOML."""
        o_file = dict(opts)
        flags = []
        if mode == "flag" and field in o_file:
            v = o_file.pop(field)
            flags = gen.flag_args({field: v}, r)
        elif mode == "both" and field in o_file:
            v = o_file[field]
            o_file[field] = override
            if field == "color_format":
                pass
            flags = gen.flag_args({field: v})
        if "clipbox_quantization" in o_file and o_file["clipbox_quantization"] is None:
            o_file.pop("clipbox_quantization")
        toml_name = "%s.toml" % label
        ops.append({"op": "write", "path": toml_name, "content": "text:" + gen.toml_config(o_file, ["src/*.svg"] if r.random() < 0.5 else srcs), "keep": True})
        op = {"op": "invoke", "cwd": ".", "argv": flags + [toml_name], "build_dir": "build", "label": label, "sched": gen.sched(rs), "final": True}
        if env:
            op["env"] = env
        ops.append(op)
        ops.append({"op": "inspect", "path": "build/" + opts["output_file"], "label": label, "keep": True})

    build("base", base, "file")
    for k, mode in enumerate(modes):
        if not (warm and k == 0):
            ops.append({"op": "rename", "src": "build", "dst": "build.aside%d" % k, "keep": True})
        ov = file_value_when_both
        if field == "output_file":
            # the value that must lose keeps the winner's suffix: the suffix decides the outline flavour
            ov = os.path.splitext(ov)[0] + os.path.splitext(var["output_file"])[1]
        build("v%d" % k, var, mode, override=ov)
    cid = "c20B-%d-%d" % (seed, idx)
    job = {"id": cid + ".j0", "root_id": "c20/%d/B%d" % (seed, idx), "hashseed": H(seed, "c20B", idx, "hs") % 4294967296,
           "clock_seed": idx, "readdir_seed": H(seed, "c20B", idx, "rd") % (1 << 31), "keep_trace": False, "ops": ops}
    return {"id": cid, "jobs": [job], "meta": {"part": "B", "field": field, "value": value, "base": base, "var": var,
                                               "modes": modes, "warm": warm, "fmt": var["color_format"]}}


def _expect_tables(fmt, output_file):
    must, mustnot = set(), set()
    # the outline flavour follows the output file's suffix: .otf -> CFF (CFF2 for cff2_*), .ttf -> glyf
    if output_file.endswith(".otf"):
        must.add("CFF2" if fmt.startswith("cff2_") else "CFF ")
        mustnot.add("glyf")
    else:
        must.add("glyf")
        mustnot |= {"CFF ", "CFF2"}
    if "colr" in fmt:
        must |= {"COLR", "CPAL"}
    else:
        mustnot |= {"COLR"}
    if "svg" in fmt:
        must.add("SVG ")
    else:
        mustnot.add("SVG ")
    if fmt == "cbdt":
        must |= {"CBDT", "CBLC"}
    else:
        mustnot |= {"CBDT", "CBLC"}
    if fmt == "sbix":
        must.add("sbix")
    else:
        mustnot.add("sbix")
    return must, mustnot


def _check_observables(opts, info, field=None):
    """direct table oracles for every option in opts (defaults for absent ones); returns list of (oracle, detail)"""
    bad = []

    def val(k):
        return opts.get(k, _default(k))

    fmt = opts["color_format"]
    if info["name"].get("1") != val("family"):
        bad.append(("family->name[1]", [info["name"].get("1"), val("family")]))
    exp_rev = float("%d.%03d" % (val("version_major"), val("version_minor")))
    if abs(info["fontRevision"] - exp_rev) > 1e-3:
        bad.append(("version->head.fontRevision", [info["fontRevision"], exp_rev]))
    if not info["name"].get("5", "").startswith("Version %d.%03d" % (val("version_major"), val("version_minor"))):
        bad.append(("version->name[5]", [info["name"].get("5")]))
    if info["upem"] != val("upem"):
        bad.append(("upem->head.unitsPerEm", [info["upem"], val("upem")]))
    if info["hhea"] != [val("ascender"), val("descender"), val("linegap")]:
        bad.append(("metrics->hhea", [info["hhea"], [val("ascender"), val("descender"), val("linegap")]]))
    if info.get("os2", [None] * 4)[:3] != [val("ascender"), val("descender"), val("linegap")]:
        bad.append(("metrics->OS/2 typo", [info.get("os2"), [val("ascender"), val("descender"), val("linegap")]]))
    if not (info.get("os2", [0] * 4)[3] & 0x80):
        bad.append(("USE_TYPO_METRICS", [info.get("os2")]))
    space = info["cmap"].get("20")
    if space is None or info["hmtx"].get(space) != val("width"):
        bad.append(("width->hmtx[space]", [space, info["hmtx"].get(space), val("width")]))
    em = val("ascender") - val("descender")
    custom = val("glyphmap_generator") != "nanoemoji.write_glyphmap"
    rev = {v: k for k, v in info["cmap"].items()}
    for gname, (w, h) in B_VIEWBOX.items():
        cps = B_CPS[gname]
        if fmt in gen.BITMAP and w != h:
            continue  # bitmap width comes from the PNG's pixel size (rounded), not asserted here
        exp = max(val("width"), int(round(em * w / float(h))))
        # find the glyph through cmap (single codepoints) or the ligature table
        g = None
        if len(cps) == 1:
            g = info["cmap"].get("%x" % cps[0])
        else:
            for comps, lig in info.get("ligatures", []):
                if [rev.get(c) for c in comps] == ["%x" % c for c in cps]:
                    g = lig
        if g is None:
            bad.append(("source reachable from its codepoints", [gname, list(cps)]))
            continue
        if info["hmtx"].get(g) != exp:
            bad.append(("width->advance rule", [g, info["hmtx"].get(g), exp]))
        if info["post"] == 2 and not opts["output_file"].endswith(".otf"):
            want = ("zz_" if custom else "") + gname
            if g != want:
                bad.append(("glyph naming", [g, want]))
    must, mustnot = _expect_tables(fmt, opts["output_file"])
    have = set(info["tables"])
    if not must <= have or (mustnot & have):
        bad.append(("color_format/output_file->tables", [sorted(must - have), sorted(mustnot & have)]))
    if opts["output_file"].endswith(".otf") != (info["sfntVersion"] == "OTTO"):
        bad.append(("output_file->outline flavour", [info["sfntVersion"]]))
    if "colr" in fmt and info.get("colr_version") != int(fmt[-1]):
        bad.append(("color_format->COLR version", [info.get("colr_version")]))
    if fmt in ("picosvgz", "untouchedsvgz") and not all(info.get("svg_compressed", [False])):
        bad.append(("color_format->compressed SVG", [info.get("svg_compressed")]))
    if fmt in ("picosvg", "untouchedsvg") and any(info.get("svg_compressed", [])):
        bad.append(("color_format->uncompressed SVG", [info.get("svg_compressed")]))
    if not opts["output_file"].endswith(".otf"):
        exp_post = 2 if val("keep_glyph_names") else 3
        if info["post"] != exp_post:
            bad.append(("keep_glyph_names->post", [info["post"], exp_post]))
    if fmt.endswith("colr_1"):
        q = val("clipbox_quantization")
        if q is None:
            q = int(round(val("upem") * 0.02))
        clips = info.get("clips", {})
        if not clips:
            bad.append(("ClipList present", []))
        for g, box in clips.items():
            if any(v % q for v in box):
                bad.append(("clipbox_quantization->ClipBox", [g, box, q]))
                break
    if fmt in gen.BITMAP:
        exp = int(round(val("upem") * val("bitmap_resolution") / float(em)))
        got = info.get("cblc_ppem") if fmt == "cbdt" else info.get("sbix_ppem")
        if fmt == "cbdt" and got != [[exp, exp]]:
            bad.append(("bitmap_resolution->CBLC ppem", [got, exp]))
        if fmt == "sbix" and got != [exp]:
            bad.append(("bitmap_resolution->sbix ppem", [got, exp]))
    if fmt in gen.BITMAP:
        # the images themselves are rendered at the configured height (resvg -h <bitmap_resolution>)
        sizes = [v for v in (info.get("bitmap_px") or {}).values() if v]
        if not sizes or any(v[1] != val("bitmap_resolution") for v in sizes):
            bad.append(("bitmap_resolution->image height", [sorted(set(v[1] for v in sizes)), val("bitmap_resolution")]))
    if info["name"].get("4") != val("family") + " Regular":
        bad.append(("family->name[4]", [info["name"].get("4"), val("family") + " Regular"]))
    if "GSUB" in info["tables"]:
        want = [["%x" % c for c in (0x1F469, 0x200D, 0x1F91D)]]
        got = [[rev.get(c) for c in comps] for comps, _ in info.get("ligatures", [])]
        if got != want:
            bad.append(("fea generator->GSUB ligature", [got, want]))
    else:
        bad.append(("fea generator->GSUB present", []))
    return bad


def judge_single(case, res):
    m = case["meta"]
    lab = {r.get("label"): r for r in orch.invokes(res)}
    ins = {e["label"]: e["result"] for e in res["events"] if e["op"] == "inspect"}
    out = []
    for r in orch.invokes(res):
        for n in r.get("ninja", []):
            for a in n.get("anomalies", []):
                if a["k"] == "hb.unordered_access":
                    out.append({"class": a["k"], "detail": {"part": "B", "edge": a.get("edge"), "path": a.get("path")}})
    if lab["base"]["rc"] != 0 or not ins["base"].get("ok"):
        return out + [{"class": "configuration-does-not-build", "detail": {"part": "B", "field": "(base)", "mode": "file", "opts": m["base"],
                                                                          "tail": (lab["base"].get("steps_tail") or lab["base"].get("driver_tail") or "")[-500:]}}]
    for oracle, d in _check_observables(m["base"], ins["base"]["info"]):
        out.append({"class": "option-not-reflected", "detail": {"part": "B", "field": "(base/defaults)", "oracle": oracle, "mode": "file", "got_want": d, "fmt": m["base"]["color_format"]}})
    shas = []
    for k, mode in enumerate(m["modes"]):
        r, i = lab["v%d" % k], ins["v%d" % k]
        if r["rc"] != 0 or not i.get("ok"):
            tail = (r.get("steps_tail") or r.get("driver_tail") or "")
            last = [l for l in tail.strip().split("\n") if l.strip()][-1:] or [""]
            out.append({"class": "variant-does-not-build", "detail": {"part": "B", "field": m["field"], "mode": mode, "value": m["value"], "fmt": m["fmt"],
                                                                       "cause": last[0].strip()[:120], "tail": tail[-400:]}})
            continue
        for oracle, d in _check_observables(m["var"], i["info"], m["field"]):
            out.append({"class": "option-not-reflected", "detail": {"part": "B", "field": m["field"], "oracle": oracle, "mode": mode,
                                                                    "value": m["value"], "got_want": d, "fmt": m["fmt"], "warm": m["warm"] and k == 0}})
        shas.append(r["listing"].get(m["var"]["output_file"]))
    AFF = {"translate(100, 20)": (1.0, 100.0, 20.0), "matrix(1 0 0 1 40 -30)": (1.0, 40.0, -30.0), "scale(0.5)": (0.5, 0.0, 0.0)}
    tm = AFF.get(str(m["value"])) if m["field"] == "transform" and "transform" not in m["base"] else None
    if tm and ins["base"].get("ok"):
        k_, dx, dy = tm  # the user transform in font units: p -> k*p + (dx, dy)

        def tx(v, axis):  # expected coordinate
            return k_ * v + (dx if axis == 0 else dy)
        for k, mode in enumerate(m["modes"]):
            i = ins.get("v%d" % k)
            if not (i and i.get("ok")):
                continue
            bb, vb = ins["base"]["info"].get("glyf_bounds") or {}, i["info"].get("glyf_bounds") or {}
            if m["fmt"] in ("glyf", "glyf_colr_0", "glyf_colr_1") and bb and k_ == 1.0:  # a scale may legitimately change which shape donates to which
                # COLR base glyphs carry a bounding box quantised like the clip boxes; layer glyphs move exactly
                qq = m["var"].get("clipbox_quantization") or int(round(m["var"].get("upem", 1024) * 0.02))
                base_glyphs = set(ins["base"]["info"].get("colr_base_glyphs") or [])
                moved = [g for g in bb if g != ".notdef" and g in vb and
                         all(abs(vb[g][j] - tx(bb[g][j], j % 2)) <= (qq + 1 if g in base_glyphs else 1.5) for j in range(4))]
                total = [g for g in bb if g != ".notdef"]
                if len(moved) != len(total):
                    out.append({"class": "option-not-reflected", "detail": {"part": "B", "field": "transform", "oracle": "transform->glyph placement", "mode": mode,
                                                                            "value": m["value"], "fmt": m["fmt"], "got_want": [len(moved), len(total)]}})
            gb, gv = ins["base"]["info"].get("colr_gradients") or {}, i["info"].get("colr_gradients") or {}
            for g in (gb if k_ == 1.0 else {}):
                if g not in gv or gb[g]["transformed"] or gv[g]["transformed"] or [c[0] for c in gb[g]["coords"]] != [c[0] for c in gv[g]["coords"]]:
                    continue  # only comparable when both trees hold the gradient in font space with the same structure
                for cbase, cvar in zip(gb[g]["coords"], gv[g]["coords"]):
                    idx_xy = {4: ((1, 2), (3, 4), (5, 6)), 5: ((1, 2), (3, 4), (5, 6)), 6: ((1, 2), (4, 5)), 7: ((1, 2), (4, 5)), 8: ((1, 2),), 9: ((1, 2),)}[cbase[0]]
                    if any(abs(cvar[ix] - tx(cbase[ix], 0)) > 1.5 or abs(cvar[iy] - tx(cbase[iy], 1)) > 1.5 for ix, iy in idx_xy):
                        out.append({"class": "option-not-reflected", "detail": {"part": "B", "field": "transform", "oracle": "transform->gradient geometry", "mode": mode,
                                                                                "value": m["value"], "fmt": m["fmt"], "got_want": [g, cbase, cvar, [dx, dy]]}})
                        break
            cb, cv = ins["base"]["info"].get("clips") or {}, i["info"].get("clips") or {}
            if m["fmt"].endswith("colr_1") and cb:
                q = m["var"].get("clipbox_quantization") or int(round(m["var"].get("upem", 1024) * 0.02))
                off = [g for g in cb if g in cv and any(abs(cv[g][j] - tx(cb[g][j], j % 2)) > q + 1 for j in range(4))]
                if off:
                    out.append({"class": "option-not-reflected", "detail": {"part": "B", "field": "transform", "oracle": "transform->clip boxes", "mode": mode,
                                                                            "value": m["value"], "fmt": m["fmt"], "got_want": [off[:2], [dx, dy, q]]}})
    if len(shas) == 2 and shas[0] != shas[1]:
        out.append({"class": "delivery-routes-differ", "detail": {"part": "B", "field": m["field"], "mode": "+".join(m["modes"]), "value": m["value"], "fmt": m["fmt"], "warm": m["warm"]}})
    if shas and METAMORPHIC_EFFECT.get(m["field"]) and m["value"] != _default(m["field"]) and m["fmt"] in ("glyf_colr_1", "glyf_colr_0", "glyf", "picosvg", "cff2_colr_1"):
        if shas[0] == lab["base"]["listing"].get(m["base"]["output_file"]):
            out.append({"class": "option-without-effect", "detail": {"part": "B", "field": m["field"], "mode": m["modes"][0], "value": m["value"], "fmt": m["fmt"]}})
    # dedupe by (class, oracle)
    seen, uniq = set(), []
    for f in out:
        key = (f["class"], (f.get("detail") or {}).get("oracle"), (f.get("detail") or {}).get("mode"))
        if key not in seen:
            seen.add(key)
            uniq.append(f)
    return uniq


# ---------------------------------------------------------------------------


def gen_cases(seed, tier, scale=1.0):
    na = int((60 if tier == "quick" else 1500) * scale)
    nb = int((100 if tier == "quick" else 3000) * scale)
    cases = [gen_pair(seed, i) for i in range(na)] + [gen_single(seed, i) for i in range(nb)]
    for c in cases:
        # every reference (solo) build gets a HOME and TMPDIR of its own: caches there must not carry over from the joint build
        for op in c["jobs"][0]["ops"]:
            if op["op"] == "invoke" and str(op.get("label", "")).startswith("solo"):
                env = dict(op.get("env") or {})
                env.update({"HOME": "$SIDE/home-%s" % op["label"], "TMPDIR": "$SIDE/tmp-%s" % op["label"]})
                op["env"] = env
    return cases


def judge(case, results):
    if case["meta"]["part"] == "A":
        return judge_pair(case, results[0])
    return judge_single(case, results[0])


def signature(case, results):
    invs = orch.invokes(results[0])
    reached = all(any(s.get("rule", "").startswith("write_font") or s.get("rule") == "write_variable_font" for n in r.get("ninja", []) for s in n["steps"] if "out" in s)
                  for r in invs if r.get("label") != "warm")
    if not reached:
        return None
    m = case["meta"]
    if m["part"] == "A":
        return ("A", tuple(m["differing"]), tuple(sorted(m["formats"])), m["warm"])
    return ("B", m["field"], m["fmt"], tuple(m["modes"]), m["warm"])


def describe(case):
    m = dict(case["meta"])
    return {"id": case["id"], "meta": m, "invocations": [op["argv"] for op in case["jobs"][0]["ops"] if op["op"] == "invoke"]}


def extra_coverage(cases, results):
    import collections

    fields = collections.Counter()
    pairs = collections.Counter()
    for c in cases:
        if c["meta"]["part"] == "B":
            fields[c["meta"]["field"]] += 1
        else:
            for d in c["meta"]["differing"]:
                pairs[d] += 1
    return {"part_B_cases_per_field": dict(sorted(fields.items())), "part_A_cases_per_differing_option": dict(sorted(pairs.items())),
            "part_A_cases": sum(1 for c in cases if c["meta"]["part"] == "A"), "part_B_cases": sum(1 for c in cases if c["meta"]["part"] == "B")}


if __name__ == "__main__":
    from checks import common

    sys.exit(common.main(sys.modules[__name__]))
